#!/usr/bin/env python3
"""Regenerates MANIFEST.json from the table below (kept here so the file is always schema-valid)."""
import json, os, sys
HERE = os.path.dirname(os.path.dirname(os.path.abspath(__file__)))

PROPS = ["C%02d" % k for k in range(1, 21)]

NOTE = ("Trusted: Lean 4.33 kernel; axioms propext/Classical.choice/Quot.sound only (audited each run, no sorry/native_decide/own axioms); "
        "the hand-written model SfModel is tied to the code by the correspondence check (sfh harness on an ASan build of /repo's working tree vs the compiled "
        "model sfmodel), which is trusted together with gcc/ASan/glibc and x86-64 IEEE arithmetic. libsndfile is modelled, not verified.")

CLAIMED = {
    "C10": dict(
        text="Proof (Lean 4): sf_format_check is transcribed case by case and proved equivalent — for every format word whose container and encoding the build "
             "enumerates, every endianness word, ALL channel counts and ALL sample rates — to the model of sf_open(SFM_WRITE) written from psf_open_file and the 23 "
             "container open routines (gate, header writer, codec dispatch, writers installed), and to the whole experiment (4 typed writes, close, temp residue, re-open as the "
             "same container and encoding). The full statements are refuted with concrete witnesses and proved outside two known-finding classes (rate 0, which the library's own test-suite requires sf_format_check to accept; "
             "OKI/VOX odd counts). Repaired and kept as regression witnesses / _old_rule theorems: CAF/ALAC > 8 channels, IRCAM rates >= 2^31-64 (ircam_rate_old_rule), the SIGFPE of the "
             "HTK / SDS / VOC header writers at 0 Hz (rate0_open_fails_cleanly, rate0_died_old_rule). The enumeration lists are extracted by execution each run and proved duplicate-free, well-formed, all simple formats writable, "
             "every major with a usable subtype (kernel `decide`). Exhaustive correspondence on the complete 154 560-point grid and all enumeration indices ties the model to the code.",
        technique="Lean 4 theorems over a hand-written model + exhaustive correspondence on the complete grid (lists extracted by execution)",
        design_ref="DESIGN.md §7 C10"),
    "C20": dict(
        text="Proof (Lean 4): the G.711 tables the running library uses are extracted by execution on every run and proved equal (kernel `decide`) to the "
             "Recommendation's segment formulas; encode∘decode identity on all codes; the short entry point equals the definition on the whole 16-bit range. "
             "Exhaustive correspondence of all 12 entry points per law (256 codes, 65536 shorts, s32/float/double variants) ties the lib-shaped model to the code. "
             "ADPCM: lib-shaped IMA (WAV and AIFF-C ima4 layouts) and MS ADPCM block decoders proved equal to reference decoders written from the published "
             "algorithms for all block bytes, every legal block size and 1-2 channels (ima_wav_decode_ref, ima_aiff_decode_ref, ms_decode_ref); their tables are "
             "read out of the running library through crafted blocks and proved equal to the published ones; sampled correspondence (adversarial + random blocks, "
             "WAV/W64/AIFF-C files built around them) ties the lib-shaped decoders to the code. "
             "IEEE serialisers (SfProps/C20Ieee.lean): the eight portable float32/double64 routines are modelled from the C as repaired by three fix: commits; every finite bit pattern "
             "(normal, subnormal, signed zero) is read back as itself, every normal value is written as its native bit string (full strength), the array paths replace_write/read "
             "equal the native paths on whole buffers of normal values; the rules before the repairs (1e-30 flush with its class in bit terms, hidden bit for subnormals, sign of -0) "
             "are kept as _old_rule theorems and their witnesses run as regressions; ENDSWAP_16/32/64 are involutions on every bit vector (Nat and BitVec definitions proved equal) and "
             "reverse the byte string, psf_put_be*/psf_get_* round-trip in both directions for 16/32/64 bits. Correspondence: direct kernel calls, RAW float/double files with "
             "SFC_TEST_IEEE_FLOAT_REPLACE (replace path vs native path vs model), the *_be_* routines also through AIFF PEAK chunks and the MAT4 sample-rate field; boundary dictionary + "
             "2^20 exponent-stratified patterns per routine (quick), 16-bit helpers exhaustive.",
        technique="Lean 4 theorems over a hand-written model + exhaustive correspondence (tables extracted by execution)",
        design_ref="DESIGN.md §7 C20"),
    "C13": dict(
        text="Proof (Lean 4) over a code-shaped model of chunk.c, the header cache and the four containers' custom-chunk writers/parsers: write/read table invariant "
             "used <= capacity for any number of calls (and the pre-adbbe09 rule proved to overflow first at call 32), serialise->parse round trip for every chunk list "
             "satisfying an explicit `fits` predicate (4-byte padded sizes, payload + zero padding, order kept), iteration visits exactly the wanted entries once and then "
             "returns NULL for every state of the handle's single iterator, get_chunk_data touches at most datalen bytes, a chunk set after the audio is refused and changes nothing. "
             "chunks_roundtrip holds for EVERY id the repaired sf_set_chunk accepts, of any length (shorter ids come back padded with spaces); what it refuses is exactly the reserved table of the container, "
             "unprintable markers in WAV/RF64/AIFF and calls after the audio (set_chunk_refusals, ids_refused_or_roundtrip). Eight defects found by this check are repaired (write-table capacity, late set, "
             "zero-byte read over virtual I/O, stale iterator; round 4: short ids, unprintable ids, reserved ids, 'TAG?' taken for an ID3v1 trailer in front of the audio): their rules are kept as *_old_rule theorems and "
             "their witnesses run first on every run. Partial: one known-finding class remains (100 KiB header cache: one chunk > 51200 bytes or about 100 KiB in total is dropped silently), and the pass-through names "
             "(LIST, INFO, PAD / APPL / free: accepted, the container's reader looks into them) are judged by the predicate only. "
             "Correspondence sampled: every count 0..200 on WAV, spreads elsewhere, boundary payload sizes, iterator patterns; 16-bit PCM files only.",
        technique="Lean 4 theorems over a hand-written model + sampled correspondence (sfmodel chunks vs sfh under ASan) + property predicate on the implementation transcript",
        design_ref="DESIGN.md §7 C13"),
    "C17": dict(
        text="Proof (Lean 4) over a table-shaped model of sf_command (guards as written, byte ranges read/written through data, return value, handle step): "
             "cmd_in_bounds (every range inside [0,datasize), NULL never dereferenced, return defined — for all ids, handles, sizes and memory contents, no excluded class), "
             "string_cmds_terminate, queries_are_pure, all at full strength since the four repairs ff9108b, dc376ca, 8501a42, 604e547; the rules before the repairs are kept as "
             "*_old_rule theorems. Tied to the code by the complete grid: every SFC_* id of sndfile.h + undefined ids x datasize 0..sizeof+8, 4096, INT_MAX x {NULL, exact poisoned-tail block} "
             "x {NULL, r, w, rw} x 7 formats under ASan, fresh handle per point, state digest before/after; the repaired defects are regression points run first on every run.",
        technique="Lean 4 theorems over a hand-written model + exhaustive grid correspondence under ASan",
        design_ref="DESIGN.md §7 C17"),
}

CLAIMED["C02"] = dict(
    text="Proof (Lean 4) of the integer rules for every PCM layout (MSB-keeping moves, widening zero-pads, narrowing truncates, u8 offset, short/int "
         "cross-type agreement, byte (de)serialisation round trip) over all integers; the float/double kernels (normalisation, clipping, scale flags, lrint/SSE2 "
         "variants, G.711 entry points) are modelled bit-exactly on dyadic rationals and tied to the code by correspondence: exhaustive on all 2^8/2^16 codes and "
         "all 2^16 shorts for every encoding, boundary+seeded-random for 24/32-bit and floating inputs; the documented rule is re-evaluated on the implementation's "
         "own output with exact rational arithmetic. The float kernels are proved too (lean/SfProps/C02Float.lean, 33 theorems): round-to-nearest-even of the model's "
         "rounding shift and of lrint (rneShr_half_ulp, rneShr_ties_to_even, rint_nearest_even, rint_monotone), exactness of int -> float for |x| < 2^24 / 2^53 and of float -> double, "
         "float_read_exact / float_read_single_rounding (a file sample is read into float or double with at most one rounding, none when it fits the mantissa), "
         "cross_type_agree_float, clip_in_range / clip_saturates / clip_monotone (clipping ON: every finite or infinite input lands in the integer range, saturating at both ends), "
         "float_write_inrange (in-range values are written as the nearest integer; for 32-bit files through a float the full statement is refuted by double_rounding_witness / "
         "float_write_w32_one_wraps and proved outside that case), norm_off_passthrough, scale_int_float_write_rule, float_int_read_rule and the G.711 float entry points "
         "(g711_float_reads_index, g711_float_index_in_table). Partial only in that out-of-range unclipped float -> int conversions (undefined in C) are outside every theorem.",
    technique="Lean 4 theorems over a hand-written bit-exact kernel model + exhaustive/sampled correspondence through the RAW container",
    design_ref="DESIGN.md §7 C02")

CLAIMED["C05"] = dict(
    text="Proof (Lean 4) about the handle state machine SfModel.Handle (the 16 read/write wrappers, guards in order, end-of-data clamp, zero fill, position "
         "bookkeeping) tied to the code two ways: (A) byte-exact transcript correspondence of seeded random histories on every RAW/AU/WAV encoding; (B) the "
         "count/bounds/position contract re-evaluated on the implementation's own transcripts for every writable (major, subtype, endian) incl. all block codecs, "
         "against one sequential reference read, with exact-size ASan-guarded buffers. The predicate that decides VIOLATION on an implementation transcript is the Lean definition Sf.Abs.holdsOn (lean/SfModel/Abs.lean: L0 abstract handle model of any container, reference stream as a parameter) evaluated by the driver `sfmodel abs`; SfProps/C05Abs.lean proves what an accepted transcript means and that contract-satisfying answers are accepted; the former Python predicate runs beside it as a cross-check (evidence: abs_predicate). The predicate is SOUND against the concrete handle model by a machine-checked bridge (SfProps/C05Bridge.lean `handle_run_accepted`: the transcript of every operation list of Sf.Handle from every invariant state, RAW/AU/WAV, every sample-granular codec, is accepted by holdsOn with ref := the decoded data region; induction over runOps; C08Bridge `accepted_rdwr_refines`: every accepted RDWR transcript, whatever produced it, refines the abstract file). "
         "Codecs that used to be opaque are now modelled bit-exactly: G.721/G.723 (SfModel/G72x.lean, G72xFile.lean: g72x_read_contract for every request size and position; codec-core memory safety proved — g72x_state_inv, g72x_encode_safe / g72x_decode_safe: every table index and shift count in range for every reachable state; tied by vlib/g72x.py on every cell of every read buffer), GSM 06.10 (gsm_read_call_contract / gsm_read_at_end, SfProps/C06Gsm.lean), NMS ADPCM (see below). Partial: ALAC is still opaque and covered by (B) only.",
    technique="Lean 4 theorems over a hand-written handle model + differential correspondence + contract evaluation on implementation transcripts",
    design_ref="DESIGN.md §7 C05")
CLAIMED["C06"] = dict(
    text="Proof (Lean 4) about sf_seek's whence arithmetic and the read path of SfModel.Handle (seek result is the requested frame or -1 with error; reads depend on "
         "position only); correspondence (A) byte-exact on RAW/AU/WAV histories, (B) on every writable format incl. IMA/MS ADPCM, GSM, PAF24, SDS, ALAC, DWVW: "
         "seeded seek/read histories must deliver slices of the one-pass reference stream and position probes must agree. Handles reporting SF_INFO.seekable = 0 "
         "are required to refuse every seek. The predicate that decides VIOLATION on an implementation transcript is the Lean definition Sf.Abs.holdsOn (lean/SfModel/Abs.lean: L0 abstract handle model of any container, reference stream as a parameter) evaluated by the driver `sfmodel abs`; SfProps/C06Abs.lean proves what an accepted transcript means and that contract-satisfying answers are accepted; the former Python predicate runs beside it as a cross-check (evidence: abs_predicate). The predicate is SOUND against the concrete handle model by a machine-checked bridge (SfProps/C05Bridge.lean `handle_run_accepted`: the transcript of every operation list of Sf.Handle from every invariant state, RAW/AU/WAV, every sample-granular codec, is accepted by holdsOn with ref := the decoded data region; induction over runOps; C08Bridge `accepted_rdwr_refines`: every accepted RDWR transcript, whatever produced it, refines the abstract file). "
         "G.721/G.723: g72x_read_partition (any sequence of requests of any types = one slice of the decoded stream, a function of the data bytes), g72x_seek_refused, decoder model bit-exact on adversarial data. GSM 06.10 is modelled bit-exactly (SfModel/Gsm.lean, GsmFile.lean; SfProps/C06Gsm.lean: decoder memory safety for every frame, reads of any partition / caller type deliver the sequential decode, sf_seek always refused; vlib/gsm.py compares every decoded sample with the model). Partial: ALAC's seek internals are opaque (checked by B).",
    technique="Lean 4 theorems over a hand-written handle model + differential correspondence + contract evaluation on implementation transcripts",
    design_ref="DESIGN.md §7 C06")

_WR = ("tied to the code two ways: (A) byte-exact correspondence (transcripts and file bytes) of seeded write/close/re-open histories on every RAW/AU/WAV encoding against the "
       "Lean handle+container model; (B) for every writable (major, subtype, endian) x channels x rates x lengths around block boundaries, the same samples written in one call and "
       "split over mixed calls with header updates, crash-point snapshots and a different stale frames value, re-opened and compared on the implementation's own transcripts. ")
_AW = (" The predicate that decides VIOLATION on a record of the all-format write campaign is the Lean definition Sf.AbsWrite.judge (lean/SfModel/AbsWrite.lean: the clauses of the statement as Boolean checkers over the "
       "samples handed to each write call, the lossless side condition, re-open info, read-back, closed bytes of the reference / split / stale-frames runs and every crash-point image, with the geometry of lean/SfModel/Geometry.lean) "
       "evaluated by the driver `sfmodel abs-write`; SfProps/%sAbsW.lean proves what an accepted record means and that the answers the concrete model is proved to give are accepted; the Python predicate runs beside it as a cross-check "
       "(evidence `abs_write_predicate`, lean_python_disagreements = 0).")
CLAIMED["C01"] = dict(
    text="Proof (Lean 4): sample_roundtrip / data_roundtrip (decode∘encode = id for every lossless (encoding, caller type) pair, every length, every conversion setting), "
         "file_roundtrip (open, any list of write calls, close: the data region is encodeAll of the samples and decodes back) for RAW/AU/WAV, and aiff_file_roundtrip "
         "(SfProps/C01Aiff.lean: the same for every accepted AIFF/AIFF-C encoding incl. re-open info and exact frames; the campaign of vlib/aiff.py compares the audio bytes with the model's encoders); " + _WR +
         "Partial: block codecs (ALAC, DWVW, DPCM, SDS, PAF24) are covered by (B) only." + _AW % "C01",
    technique="Lean 4 theorems over a hand-written codec/handle model + differential correspondence + round-trip predicate on implementation transcripts",
    design_ref="DESIGN.md §7 C01")
CLAIMED["C04"] = dict(
    text="Proof (Lean 4) about the container models: header writers/parsers of RAW, AU, WAV inside the handle model (re-open info, size fields, frame-count bounds, stale frames ignored), "
         "the geometry table of all containers, and stand-alone byte-exact models (header, closed bytes of ANY write session, reader) of AIFF/AIFF-C (SfModel/Aiff.lean; aiff_reopen_info, aiff_size_fields, "
         "aiff_rate_roundtrip for every r in [1, 2^31-1] and aiff_frames_exact F = N, full strength since the repairs of KF-AIFF-RATE-2P30 and KF-AIFF-ODD-PAD), CAF and W64 "
         "(caf_reopen_info / w64_reopen_info over the parsers for every accepted configuration, N and data; CAF guard: audio <= 2^31-1 bytes), WAVEX and RF64 write-side models (both RF64 header forms, "
         "auto-downgrade; their readers are not modelled), AVR, IRCAM, PAF, SVX, HTK, WVE, MPC2K, PVF, MAT4 (one C04<Container>.lean each) and, since round 4, NIST/SPHERE (nist_reopen_info over the "
         "strstr / sscanf reader for every accepted configuration and session), VOC (the divisor quantisers; voc_reopen_info_partial / voc_snapshot_valid_partial with the classes of KF-VOC-MONO-G711 / "
         "KF-VOC-UPDATE excluded and characterised exactly) and XI (full strength since the repair of KF-XI-HEADER). " + _WR +
         "The stand-alone models are tied by their own campaigns: every accepted sample-granular encoding x channels x rates (incl. 1, 65536, 2^30, 2^31-1) x lengths, ALL header and tail bytes "
         "of the store after open, after a header update and after close, and the parsers on library files plus thousands of truncated/damaged variants. The geometry (block length, pad allowance, "
         "rate quantiser per container) is written from the format definitions, not measured. Round 4 repairs, each with the model following the repaired code, a full-strength theorem "
         "and the old rule's failure as an _old_rule theorem: WAV/GSM 6.10 pad byte (C04GsmPad: wav_gsm_reopen_frames; C04Gsm over the bit-exact GSM wrapper model), SVX/MPC2K 16-bit rate saturates "
         "(svx_rate, mpc2k_reopen_info), IRCAM rate cap and big-endian channel guess (ircam_reopen_info for every accepted configuration), PVF 11-byte header (pvf_reopen_info outside the 11-byte-file class only), "
         "XI header rewritten at close. Partial: header bytes of MAT5, SDS, SD2 are not modelled (covered by B); ALAC is opaque." + _AW % "C04",
    technique="Lean 4 theorems over hand-written container models + differential correspondence (file bytes, parser verdicts) + predicate on implementation transcripts",
    design_ref="DESIGN.md §7 C04")
CLAIMED["C07"] = dict(
    text="Proof (Lean 4): kernel_append, write_partition_store (two calls = one call, every field and byte), file_bytes_fn / file_bytes_partition (closed bytes are a function of "
         "open parameters, concatenated samples and PEAK state only; header updates and call variants do not matter) for RAW/AU/WAV, and since the repairs of KF-C18-DOUBLE-NARROW / KF-C18-STAGING-MISALIGN also for "
         "PEAK-carrying WAV float/double with finite samples (file_bytes_partition_finite); " + _WR + "The clock is pinned by the harness. G.721/G.723: g72x_write_partition (the generic block-writer theorem instantiated with the REAL encoder, predictor state carried across blocks; all caller types), data region byte-exact against the model. GSM 06.10: gsm_file_bytes_partition (SfProps/C07Gsm.lean) over the bit-exact encoder model SfModel/GsmEnc.lean, tied byte for byte by vlib/gsm.py. Partial: the ALAC and IMA/MS ADPCM encoders are covered by (B)." + _AW % "C07",
    technique="Lean 4 theorems over a hand-written handle model + differential correspondence + byte comparison of partitions on the implementation",
    design_ref="DESIGN.md §7 C07")
CLAIMED["C11"] = dict(
    text="Proof (Lean 4) that the store after a header update parses to the frames written so far (AU/WAV model); " + _WR +
         "Every snapshot (copy of the store right after SFC_UPDATE_HEADER_NOW or, in auto mode, after each write) is opened by a second handle and must report the same parameters, "
         "the frames written so far (whole blocks) and the same prefix of samples. RAW (no header) and CAF/ALAC are outside the statement." + _AW % "C11",
    technique="Lean 4 theorems over a hand-written container model + crash-point snapshots parsed by the implementation",
    design_ref="DESIGN.md §7 C11")
CLAIMED["C03"] = dict(
    text="PARTIAL. Proved (Lean 4, for every argument, file content and I/O / allocator / codec answer inside its contract): the header cache all parsers read "
         "through keeps 0<=indx<=len, 0<=end<=len, 256<=len<=102400 and every buffer access in bounds, for all sequences of header_read/seek/gets/bump and whole "
         "psf_binheader_readf calls (hypotheses read-size>=0 and SEEK_SET position>=0 proved necessary, met at every call site); psf_open_file's tail: a non-NULL "
         "result has 1<=channels<=1024, samplerate>=1, frames>=0, sections>=1, non-zero container and codec fields for an ARBITRARY parser result, a NULL result has "
         "sf_errno != 0 and a non-empty message (error table extracted from the running library); the 8 read wrappers ask the codec for exactly the caller's "
         "capacity, zero-fill only inside the buffer, return within [0, requested]; sf_seek passes positions in [0, frames]. Round 4: the chunk loops of svx/caf/wav/rf64/aiff (progress rule, psf_binheader_tell) are proved bounded by the input size for every announced length incl. a pipe (chunk_loop_bounded_by_input/_by_length; the old rule's endless loops kept as *_old_rule theorems), CAF info count in range (caf_info_count), and 12 per-site bounds models (bext, cart + SFC_GET_CART_INFO copy, PEAK, LIST/INFO string, labl, cue, smpl, AIFF text/MARK/COMT, CAF info/chan: every write inside its destination for ALL declared lengths, counts and remaining bytes; capacities regenerated from the tree). Five defects found here were repaired (fixes 0001-0005) and run as regression witnesses. "
         "Ties: header-cache log events on parametrised AU headers and on the WAV chunk walk (exact psf_binheader_readf sequences) across all growth boundaries up to the 64 KiB / 100 KiB refusals, open-gate probes, wrapper/seek scripts, and the site tie: 7 sites (bext, cart, INFO string, cue, smpl, AIFF text, CAF info) x every boundary of the model's case split, parse log + getmeta vs sfmodel sites (all deterministic families). "
         "MONITORED ONLY, not proved: memory safety and termination of the ~25 parsers and the codecs themselves - structure-aware mutations of every writable "
         "(container, encoding) with all metadata chunks, random API scripts, routes vio/fd/pipe, forked children under ASan with a 5 s per-call alarm.",
    technique="Lean 4 theorems over hand-written models (header cache, open gate, read wrappers) + sampled correspondence + sanitizer-monitored structure-aware fuzzing",
    design_ref="DESIGN.md §7 C03")

CLAIMED["C08"] = dict(
    text="Proof (Lean 4) over the handle model: mode-qualified whence values move only that pointer, plain ones both, zero-offset qualified SEEK_CUR are pure queries, "
         "writes extend or keep the length (C05 write_contract), SFC_FILE_TRUNCATE shortens and moves both pointers; tied to the code by (A) byte-exact correspondence of "
         "seeded rw histories (all 12 whence cases, truncate on descriptor routes, header updates, close/re-open, from empty and pre-populated files) on every RAW/AU/WAV "
         "encoding, and (B) for every sample-granular container that opens SFM_RDWR, histories checked op by op against the abstract file of the statement "
         "(frame list + read position + write position) with a lossless caller type. Partial: the refinement theorem tying the byte model to the abstract file is stated "
         "through C01/C05 lemmas, not as one theorem. The predicate that decides VIOLATION on an implementation transcript is the Lean definition Sf.Abs.holdsOn (lean/SfModel/Abs.lean: L0 abstract handle model of any container, reference stream as a parameter) evaluated by the driver `sfmodel abs`; SfProps/C08Abs.lean proves what an accepted transcript means and that contract-satisfying answers are accepted; the former Python predicate runs beside it as a cross-check (evidence: abs_predicate). The predicate is SOUND against the concrete handle model by a machine-checked bridge (SfProps/C05Bridge.lean `handle_run_accepted`: the transcript of every operation list of Sf.Handle from every invariant state, RAW/AU/WAV, every sample-granular codec, is accepted by holdsOn with ref := the decoded data region; induction over runOps). SfProps/C08Bridge.lean `accepted_rdwr_refines`: every RDWR transcript the predicate accepts refines the abstract file AbsFile of the statement (item view), and `rdwr_handle_run_accepted` is the bridge for read/write handles.",
    technique="Lean 4 theorems over a hand-written handle model + differential correspondence + abstract-file simulation on implementation transcripts",
    design_ref="DESIGN.md §7 C08")
CLAIMED["C09"] = dict(
    text="Proof (Lean 4): invalid_read/write/seek_no_effect (every invalid-argument class returns its failure value, sets a non-zero error and leaves handle and store unchanged "
         "up to the error field; lifted to any sequence), success_clears_error (with the proved n = 0 exception), error_text_nonempty (kernel `decide` over the message table "
         "extracted from the running library each run). Tied to the code by (A) L1 histories with invalid calls mixed in, byte-exact against the model; (B) twin runs on every "
         "writable format: a valid history with and without invalid calls of every class inserted must agree line by line and in the final file bytes; every inserted call "
         "must fail cleanly with a non-empty message; all error numbers 0..SFE_MAX_ERROR exhaustively; (C) failed opens (vlib/c09open.py): malformed inputs of every container, SD2 with damaged / empty / "
         "missing resource forks, unknown formats, bad SF_INFO and modes, through sf_open / sf_open_fd (close_desc 1 and 0) / sf_open_virtual: NULL, sf_error (NULL) != 0 with a message, the handed-over "
         "descriptor closed, heap balance 0, no new descriptor, no temporary file (Lean side: SfProps/C16 failed_open_leaves_no_handle, close_releases_all_after_failed_open).",
    technique="Lean 4 theorems over a hand-written handle model + table extraction by execution + twin-run differential on the implementation",
    design_ref="DESIGN.md §7 C09")

PENDING_REASON = "check under construction in this round (DESIGN.md §7 gives the plan); not claimed until its check passes on the clean tree"


CLAIMED["C15"] = dict(
    text="Proof (Lean 4) over Sf.Faults: the five I/O callbacks are an adversarial oracle (history -> answer, constrained only by the SF_VIRTUAL_IO contract); the read/write loops of "
         "pcm.c/float32.c/double64.c/ulaw.c/alaw.c, the 16 wrappers, sf_seek, psf_default_seek, the AU/WAV header writers, wav tailer and close are total functions accepted without fuel "
         "for every oracle. Proved for all oracles: callbacks per call bounded by the request (calls_terminate*), 0 <= ret <= requested under the contract (returns_in_range*), position advances "
         "by floor(ret/channels) (position_matches_count*, full statement refuted by a proved witness: short transfer ending inside a frame, class KF.partialFrame), a failed seek keeps both "
         "positions (seek_failure_keeps_position), one store callback never changes bytes below its position and a failing seek does not move it (accepted_prefix_preserved). Tied to the code by "
         "(A) byte-for-byte correspondence (transcript, callback-kind sequence, final bytes) for RAW/AU/WAV encodings x 3 workloads x EVERY post-open callback x every applicable fault kind, "
         "persistent and single-shot; (B) the K-complete enumeration (open included) on 37 representative formats (22 containers, every codec family) with the C15 predicate on the implementation's "
         "transcript under ASan with a callback budget. Partial: block-codec loops, header parsers and the other containers' header writers are monitored by (B) only; two known-finding classes "
         "(partial frame, unchecked psf_fseek before writes; the CAF/SVX scanner hang was repaired in round 4 and is proved bounded in SfProps/C03Loops.lean); descriptor-route OS errors not exercised.",
    technique="Lean 4 theorems over an oracle I/O model + complete fault-point enumeration (differential for L1 formats, predicate on implementation transcripts elsewhere)",
    design_ref="DESIGN.md §7 C15")

CLAIMED["C18"] = dict(
    text="Proof (Lean 4) over SfModel.Handle's PEAK bookkeeping (float32/double64_peak_update as repaired: running maximum in the sample's own type, strict < within a call, "
         "strict > across calls, one update per staging buffer of WHOLE frames) iterated by Sf.Peak.run: peak_is_max_first — for every FLOAT/DOUBLE file, channel count and sequence of "
         "well-formed calls (any caller types, sizes, splits) the stored (value, position) per channel is (max |x|, first frame attaining it), as exact rational and as bit pattern; "
         "peak_partition_independent (list equality of PEAK states); the rules before the repairs are kept and refuted (peak_is_max_first_old_rule_fails, staging_misaligned_old_rule, "
         "peak_partition_old_rule_fails); chunk_roundtrip_wav/aiff (chunk bytes parse back to binary32 value and position). CALC: calc_scan_is_max / calc_scan_all_is_max (true maximum, "
         "per channel, for any buffering), calc_restores_state (read position, all conversion settings, frame count and file bytes unchanged, no error, any read-only handle state). "
         "Four defects found; three repaired by fix: commits (double fmaxval, whole-frame staging buffers, CALC rewind on read/write handles) plus the shared IEEE-writer repair; one remains a "
         "known finding (PEAK maxima that are binary32 subnormals are written as 0). Partial: CAF chunk round trip and RDWR-mode restore are covered by correspondence only. "
         "Sampled correspondence: PEAK containers x float/double x 1-6 channels x shapes x caller types x partitions (every converting writer with unaligned channel counts in every run) "
         "against sfmodel c18 peak and exact maxima; CALC on every writable format, PAF24/SDS read/write handles in every run.",
    technique="Lean 4 theorems over a hand-written model + sampled correspondence (sfmodel c18 vs sfh under ASan) + property predicate on the implementation transcript with exact bit-pattern arithmetic",
    design_ref="DESIGN.md §7 C18")

CLAIMED["C14"] = dict(
    text="Proof (Lean 4) over a code-shaped model of the POSIX I/O shim of file_io.c (psf_fseek / fread / fwrite / ftell / get_filelen / ftruncate / fclose with the "
         "virtual_io switch, fileoffset, filelength, pipeoffset, do_not_close_descriptor), sf_open_fd and the route-related parts of psf_open_file, on a world of one OS file, "
         "its descriptor, the process's descriptor set and the user's callback store: routes_equivalent (simulation, for every operation sequence: path, descriptor, callbacks and a "
         "descriptor at offset k with any bytes around give the same results and logical content), embedded_window (bytes in front of fileoffset never modified; a reader inside the "
         "window cannot see what follows it), close_desc_iff (the handle's descriptor is closed iff close_desc, no other descriptor ever), written_bytes_route_independent, "
         "pipe_equivalent, the embedding whitelist and the RDWR / SD2 refusals; sf_open_fd establishes the relation (openFd_read_rel); sf_seek / psf_default_seek / sf_read_raw modelled over any "
         "route (api_routes_equivalent) and a whole read session open -> calls -> close (session_end_to_end: same results as on the bare bytes, descriptor closed iff close_desc, no other descriptor touched). "
         "Six defects found by this check are repaired (fix: patches 0001-0005: SFC_FILE_TRUNCATE through virtual I/O, psf_ftruncate ignoring fileoffset, psf_get_filelen counting the bytes in front of an "
         "embedded file -- which also ended an SVX scan hang --, the 44-byte bound on embedded files, truncated embedded AU files); the old rules are kept as *_old_rule theorems and the witnesses run as regressions. "
         "Still outside the covered operation set, each proved to diverge: truncate through callbacks (no such callback: refused cleanly, truncate_vio_refused_cleanly), a seek in front of the window and an unknown "
         "whence (never issued by the upper layer), psf_get_filelen after a parser has set filelength to the header's own size (by design). Tied to the code by a sampled correspondence that calls the real psf_* "
         "primitives on real descriptors, pipes (read and write ends) and callbacks, by the open gate compared through SFC_GET_EMBED_FILE_INFO and fcntl (F_GETFD), by sf_seek / sf_read_raw transcripts compared with the model, "
         "and by a route-against-route campaign over every writable format (SF_INFO, samples, strings, errors, written bytes, files shorter than their header). OS behaviour of descriptors and pipes is exercised, not modelled; "
         "stdin/stdout through psf_set_stdio is not exercised.",
    technique="Lean 4 theorems over a hand-written model + sampled correspondence on the real shim primitives + route-against-route campaign on implementation transcripts",
    design_ref="DESIGN.md §7 C14")
CLAIMED["C19"] = dict(
    text="Proof (Lean 4) over a World model (SfModel/World.lean: slot table, backing stores, and the process-wide variables sf_errno / sf_parselog / sf_syserr / "
         "the psf_rand_int32 seed / the float capability statics, written exactly where the C writes them; every mutable static of src/ is enumerated in the file) around the "
         "validated RAW/AU/WAV handle model: step_frame and step_local (a call changes and reads nothing outside its slot and its store), error_state_isolated, "
         "globals_only_null (the process-wide state reaches only results of NULL-handle calls), interleaving_irrelevant / every_merge_equals_solo (for EVERY merge of any number of "
         "per-handle scripts on disjoint stores each handle's transcript, final handle and final store bytes equal its solo run; induction over the history), "
         "history_irrelevant / prelude_irrelevant (any earlier use of the library is invisible to a later handle). No excluded class: no violation of C19 is known. "
         "Correspondence sampled: merged 2-8 handle RAW/AU/WAV scripts with failing opens and NULL-handle calls, implementation vs `sfmodel world` line by line. "
         "Partial for the opaque block codecs (GSM 06.10, G.72x, NMS, ALAC, DWVW, OKI, IMA/MS ADPCM, SDS, PAF24): static state inside them is covered by the all-format "
         "campaign on the implementation's own transcripts (solo in a fresh process vs merged in groups of 2-8, twins of one codec, all 70 merges of two 4-call scripts, "
         "after a prelude using every encoding), not by the model.",
    technique="Lean 4 theorems over a hand-written World model + sampled correspondence (sfmodel world vs sfh under ASan) + solo-vs-merged predicate on implementation transcripts for every writable format",
    design_ref="DESIGN.md §7 C19")
CLAIMED["C16"] = dict(
    text="Proof (Lean 4) over Sf.Ledger, the resource ledger of a handle written where the C allocates and frees: one cell per owner pointer freed by psf_close (17), the SF_PRIVATE block, "
         "the blocks released by close hooks (AIFF markstr, GSM state, G72x state, ALAC packet table and spool FILE), the file / resource-fork / spool descriptors, the spool file on disk, and "
         "the per-chunk payload copies; cells are null / live / dangling, so overwrite-without-free, free-without-NULL-then-free and lost pointers are all expressible. Proved for every history "
         "(any list of opens -- any route, mode, container, codec, any sequence of header-parse events, failing after any number of allocation steps -- string / broadcast / cart / cue / instrument / "
         "channel-map / chunk / iterator / PEAK / dither calls valid or refused, writes, close): after close or a failed open nothing is held and nothing was lost (close_releases_all), no cell is "
         "released twice (no_double_free), a replacing call keeps exactly one block per owner (replace_frees_old), sf_close returns 0 when the descriptor closes (close_returns_zero_when_io_ok). "
         "Tied to the code per operation: owner-pointer mask read from the private struct, live heap blocks counted with the ASan runtime's malloc/free hooks, descriptor table, against `sfmodel ledger`, "
         "for every writable (major, subtype, endian) x route x history; and by the property predicate itself (heap balance 0, LeakSanitizer clean, no new descriptor, empty private TMPDIR, close = 0) on "
         "those and on failing opens, damaged SD2 resource forks, and the library's own files truncated at every header offset, with mutated length fields and duplicated chunks. "
         "Worlds of several handles (multi_close_releases_all, handles_isolated) with interleaved scenarios; read-mode parse events of WAV/WAVEX/RF64/AIFF/CAF are predicted from a chunk walk of the "
         "file's bytes (channel map and ALAC iterator still from the observed mask); failing opens through `ledger tryopen`, which never closes a handed-over descriptor. Also proved: the repaired "
         "dither-install and aiff_ima_seek rules (dither_write_terminates, aiff_ima_seek_never_calls_null; old rules refuted). Partial: the parsers stay relational in the theorems (any event list); "
         "allocation failure is not injected; known finding KF-RDWR-FAILED-OPEN-FPE (SIGFPE in a header writer during a failing SFM_RDWR open of a malformed file).",
    technique="Lean 4 theorems over a resource-ledger model + per-operation differential check (private-struct mask, ASan allocation hooks, /proc/self/fd, TMPDIR) and balance predicate on implementation runs",
    design_ref="DESIGN.md §7 C16")

CLAIMED["C12"] = dict(
    text="Proof (Lean 4) over code-shaped models: SfModel/Meta.lean (string table: 32 slots, replacement marks, start/end placement, software suffix, store growth; WAV LIST/INFO writer and "
         "parser; bext and cart (de)serialisation with the coding-history / tag-text normalisation; cue and smpl chunks; accept/refuse guards of the SET calls) and SfModel/MetaX.lean (AIFF "
         "NAME/AUTH/(c)/ANNO/APPL chunks and MARK, CAF info strings, CHAN/chan chunk with the layout table extracted from chanmap.c each run). Theorems: strings_store_inv, info_roundtrip "
         "(+ info_roundtrip_table: the 32-bit size hypothesis derived from <= 32 entries), bext_roundtrip and cart_roundtrip at full strength (every block the SET call accepts), cue_roundtrip, "
         "inst_roundtrip, aiff_text_roundtrip, mark_roundtrip, caf_info_roundtrip, chan_roundtrip, late_or_unsupported_is_harmless at full strength (a refused call leaves the whole handle state), "
         "late_bext_keeps_size / late_cart_keeps_size, strings_order_independent and meta_order_independent (what the GET calls return does not depend on the order of the SET calls). Nine defects were "
         "repaired (RIFX endian switch, late bext/cart growth, slot loop of psf_store_string, bext 10 KiB reader bound, second SFC_SET_CUE, AIFF APPL termination, cart size test, over-long AIFF text chunks, "
         "128-byte software buffer; round 4, SfModel/MetaFix.lean + SfProps/C12Fix.lean: WAV cue point names written as LIST/adtl/labl - cue_names_roundtrip -, AIFF MARK chunk when an instrument is set as well - "
         "aiff_cues_with_inst -, AIFF string replaced after the audio - late_replace_audio_in_place, the SSND offset field keeps the audio where it was written); their old rules are kept as *_old_rule theorems and their "
         "witnesses are regression tests run first on every run. Partial: eight known-finding classes remain, each with a proved "
         "witness or an explicit limit hypothesis and a replayed witness (smpl ranges and detune sign, AIFF INST chunk, 2046-byte INFO text, AIFF texts >= 8190 bytes, CAF 16 KiB buffer, "
         "AIFF sanitising, header cache). Correspondence sampled (seeded scripts: every string length class, UTF-8, CR/LF variants, coding histories and tag texts up to the 16 KiB fields, 0..100 cues, "
         "0..16 loops, channel maps) for WAV/WAVEX/RF64/AIFF/CAF against `sfmodel meta`; RIFX, W64, AU by the property predicate on the library's own transcripts only.",
    technique="Lean 4 theorems over hand-written models + sampled correspondence (sfmodel meta vs sfh under ASan) + property predicate (get after re-open = normalise(set), audio unchanged) on the implementation transcript",
    design_ref="DESIGN.md §7 C12")

# round 4 (NMS ADPCM, appended): the codec left the opaque list
_NMS = (" NMS ADPCM (16/24/32 kbit/s, RAW and WAV) is modelled bit for bit (SfModel/Nms.lean, NmsFile.lean) and compared byte for byte / item for item by vlib/nms.py; theorems in "
        "SfProps/C07Nms.lean (codec-core memory safety over all reachable states, output ranges, write-partition independence with the real encoder), C07NmsPack.lean (unpack . pack), "
        "C06Nms.lean (reads deliver the stream slice for every partition and caller type, end-of-data rule, every sf_seek refused, N <= F < N + 160, short-final-block rule after the repair of KF-NMS-SHORT-BLOCK).")
for _p in ("C05", "C06", "C07"):
    CLAIMED[_p]["text"] += _NMS
# ---- round 4 (worker c16c19): additions to the claims of C16 / C09 / C15 / C19 (appended, the texts above are unchanged) ----
CLAIMED["C16"]["text"] += (
    " Round 4: Sf.LedgerSites lists every allocation site of the open / parse / init / close functions with its owner (psf_close, container hook, codec hook, same function); "
    "site_released, failed_open_clean_at_every_point, close_on_failing_io_releases_all, late_hook_rule_leaks (the AIFF close hook installed behind the parser loses markstr). Campaigns added: "
    "late-failing opens (the library's own output with each metadata item alone x damage behind every allocating chunk: cuts, moved / duplicated damaged format chunk, field sweeps, audio chunk "
    "renamed / lying / cut; every header byte of the chunk-less containers), their accepted prefixes peeked against the model after every parsed chunk, and sf_close on failing I/O for every codec "
    "(a fault at every callback of the close; EFBIG through RLIMIT_FSIZE and EBADF on the descriptor routes).")
CLAIMED["C09"]["text"] += " Round 4: the failed-open campaign also runs the late-failing opens of vlib/lateopen.py (rejection after each allocating chunk of each container)."
CLAIMED["C15"]["text"] += (
    " Round 4: stage 4 runs every representative file through a pipe (sf_open_fd on a non-seekable descriptor) that ends at every header byte / chunk boundary, delivers 1 / 7 / 4096 bytes at a "
    "time, or carries a skip larger than the 100 KiB header cache; a call that does not return is flagged by the check itself (harness alarm).")
CLAIMED["C19"]["text"] += (
    " Round 4: Sf.FdWorld models the process-wide descriptor table (lowest free number on open; close frees a number whatever it is) and the numbers each SF_PRIVATE keeps (file, SD2 resource "
    "fork, ALAC spool file): step_isolated / caller_step_isolated / run_isolated (a call on slot i changes no descriptor of another slot nor one the library does not own, for every history), "
    "keeps_rule_closes_foreign (psf_close_rsrc without the reset closes another handle's descriptor). Correspondence exact: the descriptor table printed by the harness after every operation "
    "(fstat identity of every number) equals `sfmodel fdworld` for all 90 open/close orders of handle triples (sf_open, sf_open_fd close_desc 1/0, SD2, ALAC, r/w/rw) with sentinel descriptors; "
    "the isolation predicate and each handle's solo-vs-merged results are judged on the implementation's transcripts.")
CLAIMED["C02"]["text"] += (" Round 5: cross-type agreement for EVERY codec and type switching (lean/SfModel/CrossType.lean decides, `sfmodel crosstype`, vlib/crosstype.py): "
                           "for every writable (major, subtype, endian) twin files int vs short (narrowing; G.711 by sign and magnitude), short vs int << 16 and float / double vs the rounded int twin must be "
                           "byte-identical; the four sequential reference streams agree item by item with normalisation on and off; seeded read plans that switch the caller type at arbitrary positions on "
                           "one handle deliver slices of each type's reference stream. Theorems lean/SfProps/C02Cross.lean (every codec model satisfies the checkers, all samples); the campaign is sampled.")


CLAIMED["C04"]["text"] += (
    " Round 5 (small containers, group 4): MAT5 and SDS have byte-exact models (lean/SfModel/Mat5.lean, SdsFile.lean) with universal theorems in lean/SfProps/C04Mat5.lean"
    " (mat5_reopen_info without any size guard, mat5_size_fields, mat5_snapshot_valid, mat5_crash_image_any_header, mat5_rate_exact) and C04Sds.lean (sds_updates_dont_change_file: any session"
    " closes to the file of one write call, sds_size_fields, sds_reopen_info, sds_snapshot_valid, sds_rate_inrange / _ge / _exact); campaign vlib/small4.py. SD2's resource fork is still Table-level only."
)
CLAIMED["C11"]["text"] += " Round 5: the SDS whole-file sessions of vlib/small4.py (image after a header update byte for byte, read back, closed file independent of updates) run in this check too."
CLAIMED["C07"]["text"] += " Round 5: the SDS whole-file sessions of vlib/small4.py (closed bytes equal those of one write call without header updates) run in this check too."
CLAIMED["C04"]["text"] += (
    " Round 5: VOC is repaired (voc_close records where the audio ends, type 1 length = datalength + 2, every block reader accepts a missing terminator): voc_reopen_info and"
    " voc_snapshot_valid (lean/SfProps/C04Voc.lean) hold for EVERY accepted configuration, the old rule (SfModel/VocOld.lean) is refuted by voc_mono_g711_old_rule / voc_snapshot_u8_old_rule."
    " DWVW: the frame count dwvw_init decodes at open is at least the frames written (dwvw_scan_ge), exact for AIFF (dwvw_aiff_frames_exact), an estimate F >= N for headerless RAW (dwvw_raw_frames_partial).")
CLAIMED["C08"]["text"] += " Round 5: VOC read/write handles are repaired (SFC_FILE_TRUNCATE, idle open/close); every container gets a deterministic 'open rw, close, open rw, read, close' history."
CLAIMED["C06"]["text"] += " Round 5: DWVW read calls may be cut anywhere (dwvw_read_split, full strength in every decoder state, since the repair of KF-DWVW-TAIL-CALL)."
CLAIMED["C01"]["text"] += " Round 5: the DWVW round trip (dwvw_roundtrip) is unconditional for 12 / 16 / 24 bits since the repair of KF-DWVW-TAIL-CALL."
CLAIMED["C12"]["text"] += (
    " Round 5: the three silent string truncations are repaired in the library (a too-long LIST/INFO item is skipped on its own and the INFO text buffer is allocated from the LIST size; "
    "AIFF text chunks are read into a buffer allocated from the chunk size; the CAF writer's buffer is allocated from the string storage) and psf_bump_header_allocation grows the header buffer to its "
    "100 KiB limit instead of refusing a request whose double passes it. The string theorems are full strength in the lengths: info_roundtrip, aiff_text_roundtrip / aiff_text_lengths_full, caf_info_roundtrip hold for "
    "every text the header buffer can hold (explicit hypothesis `<= HEADER_CAP`), the former limits are *_old_rule theorems, and SfProps/C12Round.lean states one meta_roundtrip per container "
    "(meta_roundtrip_wav / _wavex / _rf64 over every handle state within the explicit limits `WithinRiff` with `normaliseRiff` as an explicit function; meta_roundtrip_aiff; meta_roundtrip_caf), bext / cart from the SET "
    "call to the re-opened RF64 file (bext_set_reopen, cart_set_reopen) and the chan chunk for every layout tag (chan_all_layout_tags). The campaign sets strings of every length class up to 90000 bytes in all five containers "
    "and compares them with `sfmodel meta`. Remaining string limit = the header buffer (known finding C13-header-cache, narrowed)."
)
CLAIMED["C13"]["text"] += (
    " Round 5: psf_bump_header_allocation is repaired (grows to the 100 KiB limit when the request fits): hdr_fits_up_to_cap proves that ANY list of chunks ending 16 bytes below the limit is kept whole in both "
    "header passes, one_chunk_always_fits that a single chunk of up to 64 KiB always fits (the limit moved from 51200 bytes), chunks_roundtrip_within_cap states the round trip with that explicit size hypothesis; "
    "one_big_chunk_is_dropped_old_rule keeps the former rule. The remaining known-finding class is `header longer than 100 KiB` (two 64 KiB chunks: chunks_beyond_cap_dropped, hdr_not_always_fits)."
)
CLAIMED["C03"]["text"] += (
    " Round 5: the header-cache model follows the repaired psf_bump_header_allocation (hdr_inv / hdr_in_bounds re-proved, bump_denied_old_rule), the INFO and AIFF text sites follow the heap buffers sized by the chunk "
    "(info_string_in_bounds, labl_in_bounds, aiff_text_in_bounds for the new rule, *_old_rule for the fixed buffers) and info_skip_goes_forward proves that a skipped INFO item moves the walk forward "
    "(the 64-bit bound that the fuzz stage of this check demanded of the repair: a wrapped 32-bit size made a first version of it loop)."
)


# round 5 (adpcmenc): IMA / MS ADPCM encoders and write paths are modelled bit for bit
CLAIMED["C07"]["text"] += (
    " Round 5: the IMA ADPCM (WAV / W64 and AIFF ima4 layouts) and MS ADPCM ENCODERS and write paths are modelled bit for bit (lean/SfModel/AdpcmEnc.lean, AdpcmFile.lean) and instantiate the"
    " generic block writer with the real encoders: write-partition independence, closed length, frames at re-open, the decoded stream of a library-written file (lean/SfProps/C07Adpcm.lean);"
    " vlib/adpcmenc.py compares data region, header frame field, return values and every decoded sample of library-written WAV / W64 / AIFF files with the model.")
CLAIMED["C05"]["text"] += " Round 5: IMA / MS ADPCM write contract (counts, frames after re-open, refused sf_seek on a writer leaves no trace) by vlib/adpcmenc.py against lean/SfModel/AdpcmFile.lean; encoder range invariants in lean/SfProps/C07Adpcm.lean."
CLAIMED["C04"]["text"] += " Round 5: geometry of the ADPCM block files (block-size rule at every sample-rate threshold incl. the int-wrapping products, N <= F < N + B) proved on the write-side model (adpcm_geometry, adpcm_closed_length, adpcm_frames_at_reopen) and checked by vlib/adpcmenc.py."
CLAIMED["C02"]["text"] += " Round 5: the int -> short and normalised double -> short conversions in front of the IMA / MS ADPCM encoders are checked on library-written files (vlib/adpcmenc.py, predicate 'narrow'; theorem adpcm_int_narrowing)."

# ---- round 5 (worker codecs2): G.721 / G.723, NMS ADPCM, GSM 06.10 — tables by execution, closed forms, conformance facts, codec state per handle ----
_C2_TABLES = (" Round 5: the NMS and GSM tables are extracted by execution on every run like the G.72x ones (vlib/codectab.py -> Generated/NmsTables.lean, GsmTables.lean; one theorem per table, "
              "nms_tables_extracted / gsm_tables_extracted / gsm_bitoff_extracted, SfProps/C20CodecTables.lean); when an entry differs the campaign of vlib/codecs20.py looks for an input whose "
              "decode / encode by the tree leaves the published-table model.")
for _p in ("C05", "C06", "C07"):
    CLAIMED[_p]["text"] += _C2_TABLES
CLAIMED["C07"]["text"] += (
    " Closed form of a written G.72x / NMS / GSM file (SfProps/C07CodecsClosed.lean, generic block_writer_closed_form): data region = encodeBlock over the spb-chunks of the zero-padded converted "
    "samples with the encoder state threaded, its byte length, frames at re-open derived from that length, the re-opened stream as a function of the written samples. NMS: whole-list unpack24 . pack24, "
    "pack/unpack on the encoder's codewords for all rates, block round trip (C07NmsBlock.lean). GSM encoder: int32 accumulations never overflow for any block (C07GsmEncSums.lean).")
CLAIMED["C06"]["text"] += (
    " Reads crossing the end of data (clamp + zero tail) for NMS and GSM through both staging loops, from the generic readLoop_general (SfProps/C06CodecsPastEnd.lean). GSM decoder: a wrap-free twin "
    "of the whole decoder equals the wrapping one on every invariant state and any bytes (gsm_decoder_never_wraps, SfProps/C06GsmNoWrap.lean).")
CLAIMED["C05"]["text"] += " nms_read_any / gsm_read_any: return value min (n, frames - position), stream then zeros, for every caller type (SfProps/C06CodecsPastEnd.lean); LIMC upper comparison dead (C20G72x.lean)."
CLAIMED["C04"]["text"] += (" Round 5: for G.72x / NMS / GSM the frame count at re-open is derived from the closed form of the written data region: F = ceil (N / spb) * spb, hence N <= F < N + spb "
                           "(g72x_ / nms_ / gsm_frames_at_reopen_closed, SfProps/C07CodecsClosed.lean).")
CLAIMED["C19"]["text"] += (
    " Round 5: Sf.CodecWorld (a slot table whose slots hold the codec side of a handle for G.72x / NMS / GSM and whose step runs the real model functions): codec_state_is_per_handle, codec_step_local, "
    "codec_interleaving_irrelevant (SfProps/C19Codec.lean); campaign vlib/codecpairs.py: every pair of the nine codec classes (a class with itself included), two live handles, merged vs solo.")
if "C20" in CLAIMED:
    CLAIMED["C20"]["text"] += (
        " Round 5: G.721 / G.723, NMS ADPCM and GSM 06.10 join the conformance claim: tables tied to the tree by execution (g72x_published_tables, nms_tables_extracted, gsm_tables_extracted), sampled "
        "encode / decode streams through the public API against the models with the published tables (vlib/codecs20.py), G.72x spec facts (ITU block names, quantiser monotone, reconstruction level in its "
        "cell, LIMC / LIMD / LIMB limits, decoder tracks encoder for all four rates after the repair of KF-G721-ENC-SE; SfProps/C20G72x.lean, C20G72xTrack.lean), GSM 06.10 section 5.1 arithmetic as spec "
        "operators proved equal to the macro-shaped code on int16 (add, sub, abs, mult, mult_r, L_mult, L_add, norm, div; the macro GSM_MULT_R differs from mult_r only at (MIN, MIN), never evaluated "
        "there by the decoder; SfProps/C20Gsm.lean).")

CLAIMED["C09"]["text"] += (
    " Round 5 (gapb): twin runs with refused calls of every class (positions, audio, every metadata setter over-sized / under-sized / lying / NULL / late, undefined commands) interleaved "
    "before the metadata, after it, between the audio writes and before the close, for every writable (container, codec) in SFM_WRITE and SFM_RDWR; the base history is the twin without exactly "
    "the calls the library refused; every later answer, the bytes of the closed file and info / metadata / audio of the re-opened file must agree (vlib/c09twin.py; Lean predicate Sf.AbsTwin.twinOk "
    "decides, `sfmodel abs-twin`; theorems SfProps/C09Twin.lean `invalid_calls_do_not_change_closed_file`, `twinOk_meaning`; KF-C09-CHMAP-REFUSED-KEPT: SfProps/C09Chmap.lean).")
CLAIMED["C17"]["text"] += (
    " Round 5 (gapb): the grid's handle-state dimension includes the ROUTE -- sf_open on a path, sf_open_fd on a descriptor, sf_open_fd on a pipe (psf->virtual_io = 0, non-seekable) x {r, w, rw} x "
    "{fresh, used} x {WAV pcm16, WAV float, AIFF, RAW; pipe: RAW, AU} (flavour suffix @path / @fd / @pipe, harness/grid_c17.c); theorems SfProps/C17Routes.lean.")
CLAIMED["C18"]["text"] += (
    " Round 5 (gapb): stale-PEAK campaign (vlib/c18stale.py): files whose PEAK chunk no longer describes the samples -- seek back + overwrite in write mode, overwrite and SFC_FILE_TRUNCATE through "
    "SFM_RDWR, chunk patched in the file bytes -- SFC_CALC_* == maxima of the stored samples on r and rw handles, SFC_GET_* == the chunk in the file; WAV / RIFX histories line by line against the "
    "Lean handle model; theorems SfProps/C18Stale.lean `calc_ignores_peak_chunk`, `stale_peak_by_overwrite`.")


CLAIMED["C08"]["text"] += (
    " Round 5: read/write histories on files WITH CONTENT BEHIND THE AUDIO (pad byte, LIST / INFO, CAF info, PEAK tailer; vlib/rdwrtail.py) with sf_read_raw / sf_write_raw as first-class "
    "operations and each of the 9 read / 9 write entry points right after every other kind of operation, judged by Sf.Abs.check (theorems SfProps/C08Raw.lean: rawRead_keeps_write_side, "
    "readLike_keeps_write_side, write_rawRead_write, rawWrite_meaning, update_keeps_frames / update_old_rule_inflates for the header-update length rule of SfModel/RdwrTail.lean); queries between "
    "the calls of a read/write handle (vlib/querycamp.py).")
CLAIMED["C11"]["text"] += (
    " Round 5: crash-point images of READ/WRITE sessions on re-opened files (with and without chunks behind the audio): every write entry point across the old end of the audio, "
    "SFC_UPDATE_HEADER_NOW / auto update, each image opened and read back, judged by Sf.Abs.check on `history up to the image + image reader` (rdwrtail.run_c11; SfProps/C11Rdwr.lean "
    "image_open_meaning / image_read_meaning, C08Raw.stale_mark_loses_frames).")
CLAIMED["C13"]["text"] += (
    " Round 5: the late sf_set_chunk is exercised after audio written through EVERY write entry point (8 typed, raw; vlib/lateset.py), the model has the entry point as a parameter "
    "(Sf.ChunkW.writeBy) and SfProps/C13Late.lean proves the refusal for every entry point and every history of write calls.")
CLAIMED["C12"]["text"] += " Round 5: the have_written-guarded setters after audio written through every write entry point (lateset.run_c12; audio and frame count judged by Sf.Abs.check)."
CLAIMED["C06"]["text"] += (
    " Round 5: interleaved non-audio calls (chunk iteration / sf_get_chunk_data incl. zero-length and last chunks, string and metadata getters, SFC_CALC_* / SFC_GET_*, sf_current_byterate) "
    "between two reads without a seek, on every container (custom chunks and strings in WAV / WAVEX / RF64 / AIFF / CAF, every encoding): vlib/querycamp.py; the query clause of the abstract model "
    "(SfModel/AbsQuery.lean) and SfProps/C06Query.lean (accepts_strip_queries, reads_with_queries_concat, get_chunk_data_restores_position).")
CLAIMED["C05"]["text"] += " Round 5: the count / position / end-of-data clauses of reads with non-audio calls in between (vlib/querycamp.py, SfProps/C06Query.lean)."

# ---- round 5 (worker gapc): additions to the claims of C01 / C04 / C07 / C14 / C19 (appended, the texts above are unchanged) ----
CLAIMED["C01"]["text"] += (
    " Round 5: CAF/ALAC packet sizes are steered THROUGH the case splits of the packet table's BER coding by measurement (final packets and packets followed by another packet of exactly "
    "127 / 128 / 129 and 16383 / 16384 / 16385 bytes, uncompressed and compressed, the hit counts are in the evidence); C04AlacBer: berEnc is the base-128 numeral (value, flags, no leading zero digit), "
    "only size 0 is written as the reader's terminator, reopen_counts_every_packet.")
CLAIMED["C04"]["text"] += " Round 5: the BER-boundary ALAC jobs of C01 run here too (frames at re-open, size fields, every byte against Sf.Alac)."
CLAIMED["C07"]["text"] += (
    " Round 5: the ALAC partition twins cover all four caller types (alac_write_s / _i / _f / _d are four copies of the staging loop), item and frame variants; Sf.AlacTyped + C07AlacTyped: "
    "typed_partition_independent (closed bytes are a function of the converted item stream, caller types mixed freely, every codec core).")
CLAIMED["C14"]["text"] += (
    " Round 5: stream F reads FOREIGN but valid files (AU annotation, WAV chunks in front of / behind data and an 18-byte fmt chunk, AIFF SSND offset / ANNO / COMM behind SSND, CAF free chunk, W64 and RF64 junk "
    "chunks, SVX ANNO) through vio / path / fd close_desc 0|1 / embedded / pipe whole and in 4096-byte pieces; a transformed file counts only when the reference route delivers the base file's samples. "
    "Sf.RoutesSkip + C14Skip: reaching the audio by reading forward is route independent incl. pipes (pipe_first_audio_read_forward), by seeking it is not (aiff_pipe_old_rule). Found and repaired: AIFF SSND offset "
    "through a pipe (KF-C14-AIFF-SSND-OFFSET-PIPE).")
CLAIMED["C19"]["text"] += (
    " Round 5: (i) name class on real descriptors: live handles whose files have the same name in different directories or no name (fd routes), ALAC writers with a packet spooled before any close; "
    "vio ALAC twins beyond one packet (vlib/spoolcamp.py); Sf.SpoolWorld + C19Spool (run_isolated: any number of writers, every history, injective spool names => every file receives what its handle spooled; fopen_shared_truncates, two_writers_shared_name). (ii) heap history: every writer "
    "script of every container (SD2 with its resource fork) under three allocator fills of fresh heap memory -- transcripts and closed bytes must not follow the fill (vlib/heapcamp.py); Sf.HeaderBuf + C19Heap "
    "(emit_independent_of_heap, gap_is_zero, no_clearing_rule_leaks_heap).")

CLAIMED["C01"]["text"] += (
    " Round 5 (ALAC codec core): the ALAC core is modelled bit-exactly in Lean (lean/SfModel/AlacBits, AlacCore, AlacAg, AlacDp, AlacMatrix, AlacDec, AlacEnc, AlacCodec). Proved: "
    "alac_escape_roundtrip - decode (encode x) = x (low 32 - depth bits cleared) for every depth, 1-8 channels, 1-4096 frames and all int32 samples on the uncompressed path; the four round-4 repairs each as an escape_old_rule_* theorem; "
    "dyn_decomp o dyn_comp = id (adaptive Golomb coder, every residual list), unpc_block o pc_block = id (orders 0-30, coefficient adaptation, wrap-around), unmix o mix = id; "
    "alac_lossless (lean/SfProps/C01AlacLosslessAll.lean) - the REAL encoder with its searches (predictor order, mixing ratio), the coefficient state it carries from packet to packet and its escape fallbacks is inverted by the "
    "decoder for every depth, 1-8 channels, every state and every packet of 1-4096 frames of int32 samples (alac_lossless_stream: whole streams; alac_lossless_exact: in-range samples bit exact). "
    "The model (encoder, decoder, whole closed file) is tied to the library bit for bit by vlib/alaccore.py (streams dec / enc / encx / file / hostile).")
CLAIMED["C03"]["text"] += (
    " Round 5: alac_decode_in_bounds (lean/SfProps/C03Alac.lean) proves that every store of the ALAC decoder into the sample buffer is in range for EVERY packet, stale buffer content, kuki configuration and frame count up to 4096; "
    "dyn_decomp / unpc_block sizes and the termination bound of the element loop are proved; hostile packets run under ASan against the Lean decoder (vlib/alaccore.py). Not proved: a bound on how far the bit reader runs past "
    "the packet end (the C code checks `cur < end` only between elements; observed safe, the slack behind the 1 MiB byte buffer is what makes it so).")
CLAIMED["C04"]["text"] += (" Round 6: SD2's resource fork is modelled byte for byte (lean/SfModel/Sd2.lean: writer in closed form, parser as a program of byte reads) and tied by vlib/sd2.py (fork bytes of library-written files for every sample size x "
                            "channels x rates incl. 2^31-1, re-open, >3000 damaged forks incl. the SFE_SD2_* code); proved: value texts parse back (sd2_rate_text_roundtrip, sd2_decimal_roundtrip), frames from the data file length, short data files reach the fork "
                            "(sd2_short_data_reopens; old rule refuted), fork independent of heap history (sd2_rsrc_deterministic); the composition parse (rsrc c) = c is proved for instances by kernel evaluation only (sd2_reopen_info_instances).")
CLAIMED["C03"]["text"] += (" Round 6: sd2_parse_in_bounds -- for ARBITRARY fork bytes every read of sd2_parse_rsrc_fork / parse_str_rsrc lies inside the fork, the 32-byte string buffers keep their NUL, the loops end within len / 12 + 1 iterations "
                            "(sd2_parse_never_fuel); NIST files shorter than the header are refused whatever they contain (nist_parse_short_file); new monitored class: truncated files of every container under valgrind memcheck on a plain build (vlib/vgcheck.py).")
CLAIMED["C12"]["text"] += (" Round 6: THE PREDICATE is Lean: Sf.AbsMeta.judge (lean/SfModel/AbsMeta.lean) evaluated by `sfmodel abs-meta` on the library's transcripts decides; vlib/meta.py `judge` is the cross-check. Every script is also judged against its TWIN run "
                            "(without the refused / late / unsupported calls: audio and every untouched item equal) and, for a sample, a PERMUTED run (order independence); getters of kinds never set must answer absent. accepted_iff: the predicate is equivalent to the statement "
                            "in mathematical form (meaning + completeness); normBext_model / normString_model tie its normalisations to the models'. meta_roundtrip is one theorem per container over handle states also for AIFF and CAF (Sf.MetaXS.XState) and covers strings set after the audio (meta_roundtrip_riff_any).")
CLAIMED["C12"]["text"] += " Repaired in round 6: a refused SFC_SET_CHANNEL_MAP_INFO erased the channel map set before it (KF-C12-CHMAP-REFUSED; chmap_refused_keeps_map / chmap_refused_erases_old_rule; twin_run_model: a history and the history without the refused calls end in the same handle state)."
CLAIMED["C13"]["text"] += (" Round 6: THE PREDICATE is Lean: Sf.AbsMeta.Chunks.judge evaluated by `sfmodel abs-meta chunks` decides; c13.py `predicate` is the cross-check. New clauses: single-step iterator calls against the complete iteration (next after last is NULL, "
                            "min (datalen, size) bytes copied), the container's audio chunk visited exactly once by a full iteration, twin run without chunks (audio and strings equal). Chunks.accepted_iff (meaning + completeness), model_entries_accepted / model_getData_accepted / "
                            "model_refusals_allowed (the read table of chunks_roundtrip_within_cap, getData and accepts pass the clauses).")

_VOX6 = (" Round 6: OKI/VOX ADPCM odd item counts (KF-VOX-ODD / KF-C10-vox-odd) are REPAIRED in the library (the odd sample of a call is held for the next call / for close); "
         "lean/SfModel/Oki.lean models the held sample, the old rule stays as writeBlockOld / readBlockOld; vlib/voxcamp.py cuts one vector of shorts into calls at odd and even positions. ")
CLAIMED["C05"]["text"] += _VOX6 + "Full strength: vox_handle_read (sf_read_* on a VOX handle after any history: min (n, frames left), position, stream, zero fill at the end), vox_read_contract, vox_read_call_contract, vox_write_contract (SfProps/C05Vox.lean); no VOX class is waived any more."
CLAIMED["C06"]["text"] += _VOX6 + "vox_read_partition: any partition into read calls of any parity delivers the same stream."
CLAIMED["C07"]["text"] += _VOX6 + "vox_partition (two calls cut anywhere = one call), vox_file_bytes_partition (closed file = pair encoder over the concatenated samples), vox_write_call_staging."
CLAIMED["C04"]["text"] += _VOX6 + "vox_frames_bound: N <= F < N + 2 for every partition into write calls, vox_reopen_delivers_frames."
CLAIMED["C01"]["text"] += _VOX6 + "vox_write_count (every call reports its count), vox_even_unchanged (even-count callers get the bytes of before)."
CLAIMED["C10"]["text"] += " Round 6: the class KF.voxOdd is gone from C10_partial (the only excluded class left is rate 0): RAW/VOX_ADPCM writes of an odd number of frames return the count (vox_odd_write_old_rule keeps the old rule)."
_R6_WBRIDGE = (" Round 6 (write-side bridge): the write-side predicate Sf.AbsWrite.judge is tied to the models by proof: recordOf = the record the campaign would write down if the library behaved like the model "
               "(calls with the model's return values, closed bytes, re-open through the model's parser, read-back through the model's decoder, a crash point after every header update / auto-mode write, "
               "stale-frames run); model_session_accepted (SfProps/C01Bridge.lean): accepted (recordOf S) for EVERY Sf.Handle session on RAW / AU / WAV (level A Pred.accepted_of_good + level B handle_pred_good); "
               "one generic theorem over stand-alone container models (small_pred_good) instantiated for WVE, MAT4, MPC2K, HTK, PVF, AVR (SfProps/C04Bridge.lean); block codecs G.72x / NMS / GSM "
               "(block_session_accepted, SfProps/C07Bridge.lean: C07 / C04 clauses from *_write_partition / *_frames_at_reopen).")
for _p in ("C01", "C04", "C07", "C11"):
    CLAIMED[_p]["text"] += _R6_WBRIDGE
_R6_HOLES = (" Round 6 (holes): writes and extending SFC_FILE_TRUNCATE beyond the end of the data: zero bytes decode to zero exactly for signed PCM / float / double (holeZeroFor, decode_zeros; u8, mu-law, A-law witnesses), "
             "the bridge Sf.Handle -> Sf.Abs extended to geometries that claim holeZero (write_ref_hole, trunc_step_h, handle_run_accepted_holes; SfProps/C08Holes.lean); C08 campaign C = hole histories "
             "(vlib/c08holes.py: gap-w, gap-rw, gap-end, gap-idle, ext-trunc on every RDWR container, both routes) judged by Sf.Abs.check with holezero=<ty>.")
for _p in ("C05", "C06", "C08"):
    CLAIMED[_p]["text"] += _R6_HOLES

CLAIMED["C04"]["text"] += (" Round 7: sd2_reopen_info is universal (lean/SfProps/C04Sd2All.lean): for EVERY accepted configuration (sample size 1..4, 1..1024 channels, rate 1..2^31-1, file name <= 200 bytes) the parser run on the writer's fork returns "
                            "exactly that sample size, rate and channel count (symbolic walk: value-level evaluator Prog.eval over the piecewise byte function of rsrc; six iterations of the string loop), composed with openInfo in sd2_reopen_info_full.")
CLAIMED["C06"]["text"] += (" Round 7: ALAC reads ACROSS packet boundaries (lean/SfProps/C06AlacStream.lean): read_stream_cross_packet -- a read of len frames at stream position pos delivers stream[pos..pos+len), cut only at the end of the stream, for every codec core, "
                            "any packet sizes in 1..2^20 and the table with or without the zero entry of a padded 'pakt' chunk; read_partition_cross_packet, read_sequence_cross_packet.")
CLAIMED["C01"]["text"] += (" Round 7: ALAC wrapper o codec in the model (lean/SfProps/C01AlacFile.lean): alac_file_roundtrip -- for every list of write calls, the data region and packet table alac_close leaves, read by any sequence of read calls, deliver the frames written, "
                            "for every codec core satisfying CodecOk (decode o encode = id per packet, 1..2^20 bytes); the real core satisfies it by alac_lossless_exact up to the packet-size bound, which stays a hypothesis (alac_core_file_roundtrip).")

# ---- round 7 (worker ieeefix): the portable IEEE writers encode exponent field 0 (appended, the texts above are unchanged) ----
CLAIMED["C20"]["text"] += (" Round 7: the portable WRITERS are repaired (signbit, exponent field 0 encoded: KF-C01-ieee-tiny / KF-C18-PEAK-SUBNORMAL fixed) and proved at FULL strength: ieee_write_finite_f32 / _f64 -- "
                            "float32_*_write / double64_*_write produce the native bit string for EVERY finite value (normal, subnormal, +0, -0), write_read_finite_*, replace_write_finite_* / replace_read_finite_* / replace_buffer_roundtrip; "
                            "the early-return rule is kept as ...TinyOld (ieee_write_tiny_old_rule, ieee_write_finite_tiny_old_rule_fails: 2^-127 and -0.0). Every kernel / API / AIFF-PEAK stream carries exponent-field-0 patterns heavily "
                            "(vlib/ieee.py tiny_patterns: every single-bit mantissa, all-ones prefixes, the neighbours of FLT_MIN / DBL_MIN, seeded mantissas, both signs).")
CLAIMED["C01"]["text"] += (" Round 7: C01 through the portable IEEE path (SFC_TEST_IEEE_FLOAT_REPLACE) holds for EVERY finite value incl. subnormals and -0.0 (replace_roundtrip, no excluded class; "
                            "replace_roundtrip_old_rule_fails / _partial keep the rule before the repair); the campaign no longer waives anything and writes exponent field 0 heavily.")
CLAIMED["C18"]["text"] += (" Round 7: the PEAK value field is exact below FLT_MIN too (Sf.PeakExact, SfProps/C18Exact.lean: peak_field_exact, peak_field_bytes, peak_chunk_roundtrip_exact -- the chunk re-opens as the binary32 of the "
                            "maximum for every finite value; peak_field_old_rule / peak_field_old_rule_fails keep the FLT_MIN rule as Sf.wrF32TinyOld; chunk_agrees: the handle model's chunk, which follows the repair, is the same bytes for every finite maximum). 24 jobs with subnormal "
                            "maxima (all six containers, both encodings, doubles between two subnormal floats, FLT_MIN as boundary) run on every seed; nothing below FLT_MIN is waived any more.")


CLAIMED["C09"]["text"] += (" Round 7: KF-C09-CHMAP-REFUSED-KEPT is repaired (a refused SFC_SET_CHANNEL_MAP_INFO left the refused map on a handle that had none): "
                          "`refused_setter_no_effect` now holds for all five metadata setters (SfProps/C09Chmap.lean; rule before: chmap_refused_but_kept_old_rule); the container's verdict "
                          "(wavlike_gen_channel_mask / aiff_caf_find_channel_layout_tag / no hook) is Lean: Sf.ChmapVerdict, run against the library by `sfmodel chmap` (vlib/chmapfix.py: every map of valid ids "
                          "for 1 and 2 channels on WAV / AIFF / AU, seeded histories on 19 containers, GET on the write handle and on the re-opened file).")
CLAIMED["C04"]["text"] += (" Round 7: KF-PVF-TINY-FILE is repaired (guess_file_type probes what a file shorter than 12 bytes has, zero-padded): pvf_reopen_info / pvf_snapshot_valid hold for EVERY session "
                          "(pvf_reopen_holds : pvf_reopen_full), the 12-byte rule is kept as parseProbe12 (pvf_tiny_not_reopened_old_rule, pvf_reopen_probe12_old_rule_fails); Sf.Small2.guessProbe = guess on files of at least 12 bytes (guessProbe_eq_guess).")
CLAIMED["C16"]["text"] += " Round 7: a channel map the container refuses is freed inside the call and moves no cell of the ledger (`setchanmap 0`; the verdict of every scenario's map comes from Sf.ChmapVerdict)."
CLAIMED["C17"]["text"] += " Round 7: the SFC_SET_CHANNEL_MAP_INFO arm (`Sf.Command.chmapSet`) computes the container's verdict from the caller's ints: the return value is exact (0 or 1) and a refused call is pure."

CLAIMED["C04"]["text"] += " Short-probe stream (vlib/shortprobe.py, `sfmodel probe`): every marker of guess_file_type cut / zero- / garbage-extended to every length 1..11 (832 files) against Sf.Small2.guessProbe."
CLAIMED["C09"]["text"] += " Residual recorded: KF-C09-CHMAP-REMASK (foreign RDWR WAVEX whose mask has more bits than channels: the re-derived mask drops the spare bits; remask_witness)."
CLAIMED["C09"]["text"] += (" Round 8: the caller's file after a FAILING open (vlib/failopen.py, harness op `failopen`, model lean/SfModel/FailedOpen.lean, theorems lean/SfProps/C09FailedOpen.lean): every writable (container, codec) seed x truncations x field "
                            "substitutions x byte hits x mode rw / r x four routes; a failing open that dies, or that changes the file in mode r, or in mode rw with an error the container's header reader raises, is a VIOLATION; "
                            "KF-RDWR-FAILED-OPEN-FPE is repaired (failed_open_never_divides_by_zero: no close function runs a header writer on an SF_INFO that failed validate_sfinfo; failed_open_old_rule_traps), the rest of it is the "
                            "open finding KF-RDWR-FAILED-OPEN-WRITES with the exact class KF.lateRefusal (failed_open_writes_iff_class, failed_open_writes_nothing_partial, failed_open_writes_nothing_refuted).")
CLAIMED["C16"]["text"] += (" Round 8: KF-RDWR-FAILED-OPEN-FPE is repaired and no longer waived (a SIGFPE inside a failing SFM_RDWR open is a VIOLATION); error_exit_mode_releases_the_same (lean/SfProps/C09FailedOpen.lean): closing the failed "
                            "SFM_RDWR handle as a read handle runs the same release program, for every handle state.")

# ---- round 8 (worker c15fix): the two open C15 findings are repaired (appended, the texts above are unchanged) ----
CLAIMED["C15"]["text"] += (" Round 8: KF-C15-HEADER-POSITION and KF-C15-PARTIAL-FRAME are repaired, no C15 finding is open and the check waives nothing. Seek latch: psf_fseek records a failure in psf->file.seek_failed, "
                            "psf_fwrite transfers nothing until a psf_fseek succeeds (Sf.Faults.seekFailed = a function of the callback history, fwrite; old rule fwriteOld); paf_write_header seeks to offset 0. "
                            "SfProps/C15Latch.lean: header_write_contained (au / wav header rewrites change no byte at or behind the header length, memory store under ANY fault), write_refused_after_failed_seek "
                            "(every oracle), failed_seek_latches, latch_only_moved_by_seeks, header_over_audio_old_rule. Whole frames: the 18 read / write wrappers round a count that ends inside a frame down and clear "
                            "psf->last_op (Sf.Faults.wholeFrames); SfProps/C15.lean: position_matches_count and position_matches_count_write at FULL strength for every oracle, partial_frame_clears_last_op, "
                            "next_read_seeks_after_partial_frame, position_matches_count_exact_old_rule (the former class was exact), readTail_eq_old_outside_class. The prefix clause exempts only the bytes of a torn "
                            "frame (a fragment the write call did not report; iolog verdict ranges= vs c15lib.torn_regions).")
CLAIMED["C05"]["text"] += (" Round 8: 'a whole number of frames' holds under failing I/O as well (KF-C15-PARTIAL-FRAME repaired: Sf.C15.position_matches_count / position_matches_count_write, every oracle; "
                            "SfProps/C15.lean now also belongs to C05).")
CLAIMED["C14"]["text"] += (" Round 8: psf->file.seek_failed on the three routes (lean/SfModel/RoutesLatch.lean over Sf.Routes; `sfmodel routes` runs the shim cases on it): SfProps/C14Latch.lean -- fwriteL_latched "
                            "(with the flag set psf_fwrite transfers nothing and touches neither file, store nor shim: the same answer on every route), fseekL_obs / fseekL_vio_latch / fseekL_fd_latch / fseekL_pipe_keeps, "
                            "runL_eq_run_of_clear (a run in which no seek fails is a run of Sf.Routes: routes_equivalent and the other C14 theorems hold for the repaired code on such runs).")
# ---- round 8 (worker wbridge2): the remaining instances of the write-side bridge; the exact sample-period rate clause (appended) ----
_R8_WBRIDGE2 = (" Round 8 (write-side bridge, remaining models): <x>_session_accepted for PAF (PCM_S8 / 16), IRCAM, NIST, MAT5, VOC (Laws directly: terminator byte) and SVX (given the reader fact SvxReopens) "
                "in SfProps/C04Bridge2.lean, IMA ADPCM (WAV / W64 / AIFF layouts) + MS ADPCM (adpcm_block_agrees: the predicate's block table = geoOf for every rate) and OKI/VOX in SfProps/C07Bridge2.lean; "
                "BlockFacts.c01 = lossy pair OR roundtrip fact (the C01 clause of judge for lossless block codecs). The rate clause of the predicate for the sample-period class (HTK 100 ns, SDS 1 ns in 21 bits) is EXACT: "
                "AbsWrite.periodQuant = u / (u / sr) where the period fits the field, any positive rate elsewhere (vlib/geometry.py rate_ok likewise); htk_rate_exact_accepted for EVERY rate, htk_rate_exact_only, "
                "rateOk_period_iff (SfProofs/AbsWriteRate.lean); the first-order tolerance of before is htk_rate_tolerance_old_rule; HTK / SDS campaign rates include 3.2 - 10 MHz, 476 / 477 Hz, 1 GHz + 1.")
for _p in ("C01", "C04", "C07", "C11"):
    CLAIMED[_p]["text"] += _R8_WBRIDGE2


CLAIMED["C02"]["text"] += (" Round 8 (gapd): the cross-type campaign runs every file under FOUR settings of the two normalisation switches (on/on, off/off and the two in which "
    "SFC_SET_NORM_FLOAT and SFC_SET_NORM_DOUBLE DIFFER on one handle) and issues state-reading commands (the four SFC_CALC_*, SFC_GET_NORM_*, SFC_GET_SIGNAL_MAX / MAX_ALL_CHANNELS, "
    "SFC_GET_CLIPPING, info) between the reads of every plan; Sf.CrossTypeQ (queries are transparent: SfProps/C02Query.lean switchOkQ_iff_strip, calc_keeps_normalisation, "
    "decode_own_switch_only). Repaired: SFC_SET_CLIPPING ignored by the int readers of the portable IEEE path (KF-C02-REPLACE-CLIP-READ).")
CLAIMED["C20"]["text"] += (" Round 8 (gapd): the portable IEEE path through EVERY caller type x file byte order x direction with calls longer than two staging passes (vlib/ieeecross.py; "
    "SfProps/C20Cross.lean replace_write_cross_f32/_f64, replace_read_cross_f32/_f64 = Sf.Enc.encode / decode) -- found and repaired: replace_read_d2f copied doubles into the caller's float "
    "buffer (KF-C20-REPLACE-READ-D2F, heap overflow); G.711 through all entry points in ONE process in permuted orders with the switches toggled on one handle (vlib/g711order.py; "
    "SfProps/C20Order.lean g711_float_read_order_independent, cached_table_rule_fails).")
CLAIMED["C18"]["text"] += (" Round 8 (gapd): ONE call longer than the staging buffer with UNIQUE channel maxima behind the first pass (every caller type x 1-6 channels x both encodings, "
    "vlib/c18long.py; SfProps/C18Long.lean pass_offset_units, mixed_units_differ).")


CLAIMED["C08"]["text"] += (" Round 8: COMMANDS AS OPERATIONS (vlib/cmdops.py): every position-neutral sf_command (35, incl. the four SFC_CALC_*, header updates, getters, chunk iteration) x last operation {write, read, seek r / w / both} x next operation "
                            "{write, read} without a seek, pointers at different frames, on every SFM_RDWR-capable encoding (every cell on 8 containers); Sf.Abs decides. Model Sf.AbsCalc (two pointers, descriptor, last_op), theorems lean/SfProps/C08Calc.lean: "
                            "calc_same_pos / calc_coherent / calc_next_write_lands / calc_next_read_from for EVERY handle state; the seeded variants (tell first; last_op restored) are refuted.")
CLAIMED["C17"]["text"] += (" Round 8: (1) the same command-as-operation campaign judges 'queries leave position and audio unchanged' where only the next write / read shows it; (2) WORD FILLS: every command whose struct holds a size / count field "
                            "gets blocks made of one repeated 32-bit word (2^31-1, 2^31, 2^32-1, 2^32-16, 2^32 - offsetof (variable part) + d, 2^32 - sizeof + d, cue counts whose product wraps) at the boundary sizes; lean/SfProps/C17Size.lean: the 64-bit guard of "
                            "cart_var_set / broadcast_var_set cannot wrap (minSize_no_wrap, guard64_exact, varSet_guard_is_c_guard), three of the four (width, copy bound) combinations are safe, 32-bit sum + field-bounded copy is refuted.")
CLAIMED["C09"]["text"] += (" Round 8 (stage F, vlib/cmdfail.py): the FAILURE-VALUE TABLE of sf_command on write-only handles, read handles of non-seekable codecs and with wrong sizes / NULL -- convention `code` (non-zero = the recorded error) / `false` -- "
                            "plus 'a CALC call that succeeds returns 0, leaves sf_error 0 and fills the result'; verdict Sf.AbsTwin.judge; lean/SfProps/C09CmdFail.lean: calc_all_refusal_convention, calc_all_success_clean at full strength over Sf.Command.run. "
                            "KNOWN FINDING KF-C09-CALC-SIGNAL-MAX-RET0: SFC_CALC_[NORM_]SIGNAL_MAX refused (write-only / non-seekable) returns 0 with the error recorded (calc_signal_max_refusal_full_fails, _partial).")
CLAIMED["C16"]["text"] += (" Round 8 (vlib/c16foreign.py): foreign-but-valid files (every vlib/foreign.py transformation, grown chunks, tiny JUNK chunks, metadata-rich bases) opened r / rw, closed idle / after reads / after an append: ledger + sf_close == 0; "
                            "the four ALAC encodings with TMPDIR missing / a file / blocked (harness op `tmpenv`): the spool file created by psf_open_tmpfile's fallback in the current directory is removed. lean/SfProps/C16Tmp.lean (tmpfile_removed for every "
                            "state of the temp directory; the fallback that does not record its name refuted), C16CloseRet.lean (close_returns_fclose_status; each seeded site alone harmless, both together refuted).")
CLAIMED["C19"]["text"] += (" Round 8 (vlib/foreignworld.py): a FOREIGN file (metadata-rich base x every foreign transformation) opened r / rw next to a WRITER of the same container, 10 containers, merges roundrobin / reverse / sequential, solo vs merged. "
                            "lean/SfProps/C19Text.lean: header_isolated -- under the rules `constant` (the code) and `handle` the header text of handle k's file is that of k's calls alone, for EVERY interleaving; the file-scope buffer is refuted.")

CLAIMED["C05"]["text"] += (" Round 8 (gape): FOREIGN-BUT-VALID layouts (vlib/foreignread.py: SSND offset with chunks behind SSND, VOC text / repeat block chains, chunks around the audio in WAV / CAF / SVX / W64 / RF64, AU annotations, long NIST header) judged by Sf.Abs.holdsOn against the "
                            "CONSTRUCTION (frames and streams of the library-written base file), theorems lean/SfProps/C05Foreign.lean; VOC block chains modelled (lean/SfModel/VocBlocks.lean, `sfmodel vocblocks`, lean/SfProps/C06VocBlocks.lean). Residual recorded: KF-SVX-BODY-PAD.")
CLAIMED["C06"]["text"] += " Round 8 (gape): the same foreign-layout campaign for seeks and partitions (vlib/foreignread.py); text_then_sound (lean/SfProps/C06VocBlocks.lean): the VOC data offset depends on the length of the block chain only, for every text length below 2^24."
CLAIMED["C07"]["text"] += (" Round 8 (gape): short transfers and EINTR on real descriptors (harness/shortio.c interposes read / write; vlib/shortio.py): the armed run and the unarmed run are one record of Sf.AbsWrite.judge (clause partition); retry loops modelled in "
                            "lean/SfModel/ShortIo.lean, fwrite_complete / fwrite_prefix / fread_complete (lean/SfProps/C07ShortIo.lean), call counts tied by `sfmodel shortio`.")
CLAIMED["C14"]["text"] += (" Round 8 (gape): descriptor ownership at sf_close when a close handler reports a problem (vlib/closeown.py; lean/SfModel/CloseOwn.lean, close_releases_iff_owned / close_blind_to_handlers in lean/SfProps/C14CloseOwn.lean) and the descriptor routes under short / "
                            "interrupted read () and write () calls against virtual I/O (vlib/shortio.py).")
CLAIMED["C15"]["text"] += (" Round 8 (gape): stage 3 also enumerates every fault point of foreign multi-block / multi-chunk headers (read workload) and of the rdwr workload through sf_read_raw / sf_write_raw (vlib/c15extra.py); the raw entry points are modelled over the oracle "
                            "(lean/SfModel/FaultsRaw.lean, byte-for-byte in stage 2) with write_raw_seek_failure_contained / read_raw_seek_failure_contained (lean/SfProps/C15RawRw.lean).")

CLAIMED["C05"]["text"] += (" Round 9 (handleg): the GENERIC handle machine Sf.HandleG (lean/SfModel/HandleG.lean: Sf.Handle's step function with the container as a parameter; instances AIFF / CAF / W64 / AVR / IRCAM / PAF 8+16 / HTK and RAW / AU / WAV, "
                            "lean/SfModel/HandleGInst.lean) -- whole histories (write / seek / read / header update / truncate / close / re-open r and rw) compared byte for byte incl. the store dumps (vlib/handleg.py, sfmodel handleg); "
                            "handleG_refines_handle, HInv_preserved_generic, write_contract_generic, instances_lawful (lean/SfProps/C05HandleG.lean).")
for _p in ("C06", "C07", "C08"):
    CLAIMED[_p]["text"] += " Round 9 (handleg): generic handle machine campaign vlib/handleg.py (Sf.HandleG, ten container instances, store bytes compared) and lean/SfProps/C05HandleG.lean."


# ---- round 9 (worker wbridge3a): crash points of block-codec writers; XI DPCM whole-file round trip (appended) ----
_R9_WBRIDGE3A = (" Round 9 (write-side bridge, block codecs with crash points): SnapJob / SnapFacts / snap_session_accepted (SfProofs/AbsWriteBridgeBlock3.lean: BlockFacts + per crash point "
                 "frames = floorToBlock (N_k, B), read-back = that prefix of the finished file's, = the samples for a lossless pair); for every instance of the generic block writer the store between two calls "
                 "is a prefix of the closed data region and holds N_k / spb whole blocks (SfProofs/AbsWriteBridgeBlock3Writer.lean, ...Codec.lean writer_snap_facts); g72x_snap_session_accepted and "
                 "adpcm_snap_session_accepted (IMA WAV / W64 / AIFF, MS ADPCM, 1-2 channels, every rate; read side: front-to-back decoding as hypothesis Stream) in SfProps/C07Bridge3Snap.lean; the XI delta coders "
                 "DPCM_16 / DPCM_8 at the byte level through the model's reader DpcmR (run_eq_one_call, decode_data, back_data: SfProofs/AbsWriteBridgeBlock3Dpcm.lean) and xi_session_accepted with crash points "
                 "after any call, the job's files being the container model's closedBytes / snapshotBytes (xi_job_is_container) in SfProps/C07Bridge3.lean. vlib/blocksnap.py (C11): every block-coded format x "
                 "SFC_UPDATE_HEADER_NOW inside a block, one frame before / on / behind a block edge.")
for _p in ("C01", "C04", "C07", "C11"):
    CLAIMED[_p]["text"] += _R9_WBRIDGE3A


CLAIMED["C08"]["text"] += " Round 9 (fix9): SFM_RDWR handles on EXISTING files of every format that opens the mode, block-packed containers included (vlib/rdwrexist.py: idle open/close and append, judged by Sf.Abs from the reference read; Sf.SdsRdwr: an SDS file keeps its sample count, rdwr_idle_keeps_file / rdwr_append_count, old rule refuted); setter commands issued after the handle has grown the file (vlib/setcmds.py; Sf.IeeeReinit session_frames)."
CLAIMED["C04"]["text"] += " Round 9 (fix9): conversion / header setters (SFC_TEST_IEEE_FLOAT_REPLACE, clipping, norm, scale, peak, auto header, ...) between the writes of an SFM_WRITE handle of every sample-granular format (vlib/setcmds.py); lean/SfProps/C04IeeeReinit.lean session_frames (any sequence of writes and commands), old rule refuted."


# ---- round 9 (worker wbridge3b): sample-level bridge (AIFF / CAF / W64), SVX re-open theorem, exact rate clauses (appended) ----
_R9_WBRIDGE3B = (" Round 9 (write-side bridge, sample level; exact rate clauses): Sf.AbsWriteBridge.Sample -- SCont / SLaws (closed bytes = f (caller type, samples per call); the partition law closedFn is stated ON SAMPLES) and "
                 "sample_cont_session_accepted (SfProofs/AbsWriteBridgeSample*.lean); PEAK bookkeeping = Sf.Peak.run threaded through the calls, peak_partition (value AND position independent of the split, from C18 run_partition); "
                 "instances w64_session_accepted, aiff_session_accepted (AIFF / AIFF-C, every encoding incl. FLOAT / DOUBLE with the PEAK chunk), caf_session_accepted in SfProps/C04Bridge3.lean (WAVEX / RF64: no parser model, not instantiated). "
                 "SVX: svx_reopen_info = the universal re-open theorem of the chunk-loop reader over the model's writer (SfProofs/SvxReopen.lean svx_reopens / svx_snapshot_reopens, guard: BODY size < 2^32), svx_session_accepted_all has no reader hypothesis; "
                 "proving it found KF-SVX-NAME-LENGTH (a file written under a 254 / 255 character name could not be re-opened: NAME chunk of 256 bytes refused), repaired (over-long NAME chunk skipped), old rule Sf.Svx.parseNameOld / svx_reopen_info_old_rule_fails. "
                 "Rate clauses: rateOk is EXACT for the 16-bit class (min sr 65535) and the binary32 class (float32Quant; IrcamRateExact.ircam_rateQ_exact: the model's IEEE round trip IS it at every rate), rateOkG / judgeG (what sfmodel abs-write evaluates) "
                 "decides VOC on the whole geometry: type 9 the rate, type 1 / 8 exactly the 8- / 16-bit time-constant quantiser; ircam / voc / svx_rate_exact_accepted and _only, ircam_session_accepted_every_rate, voc_session_accepted_every_rate; "
                 "the tolerances of before are *_old_rule witnesses (divisorTolOld, float32CapOld, field16Old); vlib/geometry.py rate_ok mirrors (integer arithmetic); campaign rates at the divisor breakpoints (1953 / 1954, 3906 / 3907, 500000 / 500001, 10^6 (+1), 64 / 128 * 10^6 (+1)) and binary32 ties.")
for _p in ("C01", "C04", "C07", "C11"):
    CLAIMED[_p]["text"] += _R9_WBRIDGE3B


CLAIMED["C06"]["text"] += (" Round 9 (gapg): vlib/seekmatrix.py enumerates (no seed involved) every block codec x container x channel count x (stand in block L by a read / at its end with the next block "
                            "undecoded) x target block {L+1, L+2, L+3, 2L+1, 2L+2, L, L-1, 0, last}: seek (SEEK_SET / SEEK_CUR), probe, read across the target's end, judged by Sf.Abs against the sequential "
                            "reads of a separate handle; lean/SfModel/ImaSeek.lean is ima_adpcm.c's read side as written (block counter in the C unit), lean/SfProps/C06ImaSeek.lean proves seek_then_read for every history, target and channel count.")
CLAIMED["C20"]["text"] += (" Round 9 (gapg): the IMA (WAV / W64 / AIFF layouts) and MS ADPCM decoders at every position a seek can reach: the block-seek matrix of vlib/seekmatrix.py on library-written files, judged against "
                            "the REFERENCE decoders (`sfmodel adpcm ... ref`) applied to the blocks the campaign cuts out of the file itself.")
CLAIMED["C02"]["text"] += (" Round 9 (gapg): vlib/labelcamp.py -- the codec LABEL every container stores (lean/SfModel/Label.lean `spec`, written from the format specifications; `sfmodel label table`) compared with what the library "
                            "writes, a foreign file per (container, G.711 law) whose label is the specification's read through all four caller types against the ITU expansion, and the width rule `Sf.Label.keepOk` "
                            "(an int written to an exact w-bit codec reads back as its top w bits) for every exact integer codec in every container; theorems lean/SfProps/C02Label.lean.")
CLAIMED["C01"]["text"] += (" Round 9 (gapg): vlib/precmd.py -- the round trip after each of 16 format-affecting commands issued behind the open (SFC_WAVEX_SET_AMBISONIC, SFC_SET_ADD_PEAK_CHUNK, SFC_RF64_AUTO_DOWNGRADE, header / "
                            "conversion switches, codec parameters) x every lossless (container, encoding), decided by Sf.AbsWrite.judge (clauses roundtrip / reopen / crash); lean/SfModel/WavexGuid.lean + SfProps/C01WavexGuid.lean: "
                            "every encoding x both values of the Ambisonic flag re-opens as itself.")


CLAIMED["C05"]["text"] += (" Round 9 (gaph): THE STAGING-LOOP MATRIX (vlib/stagecamp.py): one short transfer inside the staging loop of every write kernel -- cells from the Lean kernel table Sf.StageLoop.kernels checked against the tree's own dispatch, + IEEE replace and DPCM kernels; "
                           "clauses count / position / resume / file of Sf.StageLoop.judge; writeLoop_counts_stored / write_call_counts_stored (lean/SfProps/C05Stage.lean): for every oracle inside the callback contract the return value is the whole frames among the bytes accepted. "
                           "sf_write_raw as the write entry point of every sample-granular format in SFM_WRITE (vlib/rawwrite.py, Sf.Abs; lean/SfProps/C04RawWrite.lean).")
CLAIMED["C04"]["text"] += (" Round 9 (gaph): the staging-loop matrix (the closed file holds exactly the frames the calls accepted under one short transfer in any kernel; vlib/stagecamp.py, lean/SfProps/C05Stage.lean) and sf_write_raw as a write entry point "
                           "(vlib/rawwrite.py: every sample-granular container x encoding, content behind the audio; write_raw_counts_frames, channels_rule_iff_one_byte in lean/SfProps/C04RawWrite.lean).")
CLAIMED["C15"]["text"] += (" Round 9 (gaph): stage 2c = the staging-loop matrix (vlib/stagecamp.py); stage 2d = genuine OS failures on the SECOND file of a handle (vlib/secondfile.py, harness/secondfile.c: SD2 resource fork / data file on /dev/full, unopenable fork names, RLIMIT_FSIZE, ALAC spool): "
                           "descriptors, double closes (EBADF counted by interposing close), heap balance, judged by Sf.RsrcSwap.obsOk; code_rule_releases / early_rule_leaks (lean/SfProps/C15Second.lean) over the filedes / savedes swap of sd2_write_rsrc_fork.")


CLAIMED["C11"]["text"] += (" Round 9 (gapi, vlib/blockedge.py): crash points exactly ON / one frame before / one behind a codec block boundary for every block codec x both update modes (deterministic); "
                           "lean/SfProps/C11BlockEdge.lean: when a write call of ANY Sf.Block.Writer returns no complete block is pending (session_all_complete_blocks), the lazy loop defers one (lazy_rule_defers_block).")
CLAIMED["C12"]["text"] += (" Round 9 (gapi): the CR/LF normaliser on LINE STRUCTURE (crlf_scripts: empty lines, runs / mixes of line ends, texts ending in the middle of a pair at the edge of the 16 KiB field); lean/SfProps/C12Crlf.lean: crlf_canonical, crlf_keeps_lines, "
                           "crlf_idempotent, crlf_truncates_at_token against an independent tokeniser. Repaired: KF-C12-RF64-ODD-PAD (reader skips the pad byte behind odd audio), KF-C12-AIFF-CUE-NAME-254 (pascal strings up to 255 characters).")
CLAIMED["C13"]["text"] += (" Round 9 (gapi, vlib/queryfix.py): 'without disturbing audio' for a chunk query between two reads at a position reached by reading, every codec of every chunk-carrying container (deterministic), judged by Sf.Abs; "
                           "lean/SfProps/C13QuerySeek.lean: the save/restore program needs no codec seek; the last_op-forgetting variant loses the audio where the codec's seek refuses (DWVW off frame 0, G.72x, NMS).")
CLAIMED["C18"]["text"] += (" Round 9 (gapi, vlib/c18foreign.py): foreign-but-valid PEAK placements (behind the audio, with unknown chunks around) x SFM_RDWR sessions x close -> re-open: PEAK still present, GET == chunk == true maxima and first positions, CALC == samples; "
                           "lean/SfProps/C18PeakLoc.lean: close keeps exactly one PEAK chunk for both locations, a tailer without the PEAK clause loses a chunk behind the audio.")

CLAIMED["C09"]["text"] += (" Round 9 (fix9b): KF-C09-CALC-SIGNAL-MAX-RET0 REPAIRED (sf_command returns psf->error behind psf_calc_signal_max): Sf.Command.calcSignalMax models the refusal arms, "
                            "calc_signal_max_refusal_convention / calc_signal_max_refusal_holds / calc_signal_max_success_clean hold at full strength for SFC_CALC_[NORM_]SIGNAL_MAX on every handle that cannot scan; "
                            "calc_signal_max_old_rule / calc_signal_max_refusal_old_rule keep the rule before the repair (supersedes calc_signal_max_refusal_full_fails / _partial); no class is waived in the failure-value table; both witnesses are regressions.")
CLAIMED["C17"]["text"] += (" Round 9 (fix9b): the command model follows the repair of KF-C09-CALC-SIGNAL-MAX-RET0 -- SFC_CALC_[NORM_]SIGNAL_MAX on a handle that cannot seek / cannot read returns the recorded error number "
                            "(lean/SfProps/C17Routes.lean calc_signal_max_route_guards; the exhaustive grid compares the return value on write-only handles and pipes).")

CLAIMED["C04"]["text"] += (" Round 9 (fix9b): KF-CAF-DATA-MINUS-ONE REPAIRED (caf_read_header resolves a 'data' chunk size of -1 = to the end of the file where the chunk header is read): Sf.Caf.negSize / dataCase, "
                            "lean/SfProps/C04CafDataEnd.lean caf_data_to_end_walk (EVERY file: the walk in front of 'data' -1 ends with the audio = every byte behind the edit count), caf_data_to_end_reopens, "
                            "negative_size_still_ends_walk; the rule before the repair Sf.Caf.walkOld / parseOld: caf_data_to_end_walk_old_rule, caf_data_size_minus_one_old_rule. vlib/cafw64.py parser variants: -1 with trailing bytes, "
                            "file ending in / behind the edit count, -2, -1 on 'free'.")

# ---- round 9 (worker handleg2): the remaining sample-granular containers on the generic handle machine (appended) ----
for _p in ("C04", "C05", "C06", "C07", "C08"):
    CLAIMED[_p]["text"] += (" Round 9 (handleg2): Sf.HandleG instances SVX / MPC2K / WVE / PVF / MAT4 / MAT5 / NIST / VOC (lean/SfModel/HandleGInst3.lean) and SFM_RDWR on an existing AIFF file "
                            "(aiff_rewrite_header patches in place, lean/SfModel/HandleGAiffRw.lean): eighteen containers in vlib/handleg.py, store bytes compared; instances_lawful_all, closed_bytes_generic, "
                            "write_two_calls_generic (lean/SfProps/C04HandleG.lean).")


CLAIMED["C14"]["text"] += (" Round 9 (gapj): a deterministic slice of SKIPS THAT DO NOT FIT THE HEADER CACHE (vlib/bigskip.py: JUNK chunk / ANNO chunk / SSND offset / AU annotation whose end lies at 100 KiB -1 / 0 / +1 / +2, "
                            "uncached gaps of 7 and 8 x 16 KiB -1 / 0 / +1, 200 001 bytes; pipe against sequential virtual I/O, path / fd / embedded for three sizes; Sf.RoutesBigSkip, junk_loop_lands / big_skip_branches_agree / pipe_big_skip_first_audio "
                            "in lean/SfProps/C14BigSkip.lean); DESCRIPTOR NUMBERS 0 / 1 (harness op `lowfd`, vlib/lowfd.py: standard streams closed, every route x writer / reader x plain / SD2 / ALAC handle; P-close, P-others, P-number and the table against "
                            "Sf.FdWorld; Sf.FdWorldLow, release_closes_owned / release_keeps_lent / open_close_restores in lean/SfProps/C14LowFd.lean); ID3v2-PREFIXED files of every container through every route (reference = whichever route reads the base "
                            "file out of it). Found and repaired: KF-C14-ID3-VIO-PIPE (psf_fseek / psf_ftell ignored psf->fileoffset on the callbacks and on pipes), KF-C14-ID3-EMBEDDED (id3_skip compared an absolute position with a relative length); Sf.RoutesId3, lean/SfProps/C14Id3.lean.")
CLAIMED["C09"]["text"] += (" Round 9 (gapj): every chmap history with a refused SFC_SET_CHANNEL_MAP_INFO is re-run without the refused calls and judged by Sf.AbsTwin (closed file, re-open, GET on the re-opened file; vlib/chmapfix.py `twin_pass`); every c09twin history of a "
                            "container with a command handler sets an ACCEPTED map and then one the container cannot express. Sf.ChmapPriv (the handler-private mask / tag next to psf->channel_map; refused_leaves_priv, overwrite_without_rederive_zeroes_mask in lean/SfProps/C09ChmapPriv.lean).")
CLAIMED["C19"]["text"] += (" Round 9 (gapj): vlib/cmdreach.py -- EVERY SFC_* enumerator of include/sndfile.h (three argument shapes) on a handle A of four codec families, THEN seven workloads are opened (FLOAT / DOUBLE in both byte orders with +-Inf, NaN, -0.0, subnormals; "
                            "PCM through float; u-law; IMA), A open or closed: every line equals the run without A (Sf.CapsWorld, open_after_any_history / cache_rule_leaks_across_handles in lean/SfProps/C19Caps.lean). vlib/heapcodec.py -- heap history for EVERY codec's private "
                            "state, deterministic: 3-frame file, partial last block, reader with seeks, under three allocator fills (Sf.HeapInit, lean/SfProps/C19HeapInit.lean).")
CLAIMED["C07"]["text"] += " Round 9 (gapj): vlib/heapcodec.py for C07 -- the bytes of a 3-frame file and of a file with a partial last block, every codec, under three allocator fills ('repeating the run later or in another process'); replay `c07-heapfill <byte>`."


CLAIMED["C03"]["text"] += (" Round 9 (covgap): the BROKEN-'fmt ' DETECTOR no campaign entered (wavlike_analyze / audio_detect / vote_for_format; a PCM / 24-bit / block align 4 x channels 'fmt ' chunk makes the WAV and RF64 readers "
                           "guess float vs PCM_32 from the bytes at absolute offset 600) is modelled bug for bug as Sf.AudioDetect (three of vote_for_format's four tests ignore the loop index) -- SfProps/C03AudioDetect.lean: the answer is 0 / PCM_32 / "
                           "FLOAT for every buffer (scan_range), the installed format word / bytewidth / blockwidth are consistent for every file and route (analyze_consistent), votes bounded by twice the piece (vote_bounds), float vote all-or-nothing, "
                           "the PCM_24 and default arms are dead (analyze_outcome), short files and pipes keep the 24-bit reading. vlib/c03detect.py: a deterministic family (votes float / PCM_32 at 768 and 769 groups / nothing, second and third piece, "
                           "file lengths 599..600+4096+4095, PAD chunk pushing the data behind offset 600, 1-8 channels, WAV + RF64, neighbours outside the class) through vio / fd / pipe, compared with `sfmodel audiodetect` on the votes of every examined piece, "
                           "the outcome line, SF_INFO.format, frames and a raw read of two installed blocks; LIST/exif sub-chunk family (sizes 0, odd, larger than the LIST, 4094..4096, larger than the 4 KiB buffer, 0xFFFFFFFF, unterminated emdl, olym) "
                           "monitored through every route and added to the fuzz dictionary and the interaction round.")
CLAIMED["C09"]["text"] += (" Round 9 (covgap): sf_perror, sf_error_str and sf_write_sync (never called by any campaign) -- Sf.ErrApi / SfProps/C09ErrApi.lean: sf_error_str is a bounded copy (bytes at index >= maxlen untouched, terminated when maxlen > 0, "
                           "a prefix of the table's string, the whole string when it fits), the three calls are the identity on error state / positions / file (purity; writeSync_twin). vlib/c09errapi.py + harness/errapi.c: 18 handle states "
                           "(NULL handle fresh / after failed opens, read / write / rdwr handles without and with a pending error of 8 distinct codes), buffer lengths 0, 1, 2, strlen-1 .. strlen+2, strlen+40 on an exact-size heap block (ASan) and under a "
                           "32-byte guard band, compared byte for byte with `sfmodel errapi`; stderr of sf_perror captured; sf_error / sf_strerror equal before and after every call; sf_write_sync twins for the writable formats x {vio, fd, fd0, path} x "
                           "{write, rdwr, read}, judged by Sf.AbsTwin.twinOk.")


CLAIMED["C14"]["text"] += (" Round 9 (covgap): sf_open ('-') = psf_set_stdio AS A ROUTE (harness routes stdio / stdiopipe: a scratch file or a pipe behind descriptor 0, a scratch file behind descriptor 1; vlib/c14stdio.py: every writable format except SD2 -- written bytes and "
                           "results equal the virtual-I/O route, reads equal, pipe = sequential vio read, SFM_RDWR refused) found KF-C14-STDIO-CLOSE: sf_close (and a failed open) closed the process's stdin / stdout, descriptors the library never opened (the POSIX branch of psf_set_stdio "
                           "left do_not_close_descriptor clear, the Windows-API branch sets it). REPAIRED (two lines); Sf.RoutesStdio `setStdio` / `setStdioOld`, SfProps/C14Stdio.lean: stdio_close_leaves_descriptor (all handler results, all OS answers), stdio_close_old_rule, setStdio_is_openPath.")

def main():
    checks = []
    for p in PROPS:
        if p not in CLAIMED:
            continue
        c = CLAIMED[p]
        checks.append({
            "property_id": p,
            "quick_cmd": "bin/check %s --tier quick" % p,
            "thorough_cmd": "bin/check %s --tier thorough" % p,
            "evidence_file": "evidence/%s.json" % p,
            "replay_cmd_template": "bin/check %s --replay {path}" % p,
            "engine": "sfmodel+sfh",
            "level_claimed": {"category": "proof", "text": c["text"], "design_ref": c["design_ref"]},
            "level_note": NOTE,
            "technique": c["technique"],
        })
    man = {
        "version": 1,
        "setup_cmd": "bin/setup",
        "hooks": {
            "guard": "LIBSNDFILE_VERIF",
            "enable": "-DLIBSNDFILE_VERIF=1 in CMAKE_C_FLAGS of the out-of-tree ASan build that bin/check makes from /repo's working tree (vlib/build.py)",
            "baseline_off_cmd": "bin/baseline_off",
            "source_commits": [],
            "add_only": True,
        },
        "engines": [
            {"name": "sfmodel", "path": "lean/", "serves_properties": sorted(CLAIMED), "kind_free_text": "Lean 4 model + theorems (lake project SfModel; SfProps/Cxx.lean hold the property theorems), compiled driver"},
            {"name": "sfh", "path": "harness/", "serves_properties": sorted(CLAIMED), "kind_free_text": "C harness around the real library (ASan), script interpreter, memory/fault virtual I/O"},
        ],
        "checks": checks,
        "notes": "Family: machine-checked proof in Lean 4 with a checked correspondence to the implementation. See DESIGN.md.",
        "not_applicable": [{"property_id": p, "reason": PENDING_REASON} for p in PROPS if p not in CLAIMED],
    }
    with open(os.path.join(HERE, "MANIFEST.json"), "w") as f:
        json.dump(man, f, indent=1)
        f.write("\n")


if __name__ == "__main__":
    main()
