"""IMA / MS ADPCM write-side campaign (C05 / C07 extension; geometry facts of C04): WAV, W64 and AIFF files written by the
library with the IMA ADPCM (WAV / W64 block layout, AIFF `ima4` layout) and MS ADPCM (WAV / W64) encoders, 1 and 2 channels,
against the bit-exact Lean model of the encoders and of the write path (lean/SfModel/AdpcmEnc.lean, AdpcmFile.lean;
`sfmodel adpcmenc script`).

Job kinds
  write      the library writes caller values in several calls of mixed types (item / frame variants), closes, the file is
             dumped, re-opened and read in one call
  partition  the same, plus a twin job that writes the same caller values with one call per run of equal type, and (when a
             call is long) a second twin with no call longer than 1000 items
  seek       a write job with sf_seek calls between the writes, plus a twin job without them
  geom       a short write job at a sample rate on either side of every threshold of wavlike_srate2blocksize (incl. the
             products that wrap a C int)
  narrow     int calls with arbitrary low halves and normalised double calls of values in [-1, 1), plus a twin job that hands
             the codec's 16-bit values over as shorts (top 16 bits of the int; nearest integer to x * 32767)

Correspondence (kind 'corr'): every write return value, every sf_seek result, the data region byte for byte, the frame count the
close function hands to the header writer (`fact` chunk of WAV / W64, numSampleFrames of AIFF), frames at re-open, and every
sample a one-call read of the re-opened file delivers (= the model's DECODER run on the model's ENCODER output).

Property predicates on the implementation's own transcript (kind 'pred'):
  count      (C05) every write returns the count asked
  frames     (C05, C04) N frames accepted (no sf_seek reported success in between): the re-opened file has F frames with
             N <= F < N + samplesperblock, and a read to the end delivers exactly F
  partition  (C07) same caller values, many calls vs. one call per run of equal type vs. calls of at most 1000 items: byte-identical files
  seekclean  (C05, C07) sf_seek calls that were all refused (-1) leave no trace: the file is byte-identical to the one written
             without them
  narrow     (C02) an int write keeps the most significant 16 bits, a normalised double write of x in [-1, 1) stores the
             nearest integer to x * 32767: byte-identical to the file written from those shorts
"""
import collections, concurrent.futures, struct

from . import scripts as S, kernels as K

DIG = K.TY_DIGITS
TYS = ["s16", "s32", "f32", "f64"]
WAV, AIFF, W64 = 0x010000, 0x020000, 0x0B0000
IMA, MS = 0x12, 0x13
KINDS = {(WAV, IMA): "ima-wav", (W64, IMA): "ima-wav", (AIFF, IMA): "ima-aiff", (WAV, MS): "ms", (W64, MS): "ms"}
CONT_NAME = {WAV: "wav", AIFF: "aiff", W64: "w64"}
COMBOS = sorted(KINDS)
SRS = [8000, 22050, 32000, 44100, 1 << 30, 11025, 48000, 1, (1 << 31) - 1]
GEOM_PRODUCTS = [11999, 12000, 22999, 23000, 43999, 44000, (1 << 31) - 1, 1 << 31, (1 << 31) + 11999, (1 << 31) + 12000, (1 << 32) - 2]
CONTENTS = ["zero", "extremes", "alternate", "noise", "ramp", "quiet", "impulse", "sine", "loud-quiet", "mixture"]
OWN_KIND = {"C05": "write", "C07": "partition", "C04": "geom", "C02": "narrow"}
M32 = 0xFFFFFFFF


def srate2blocksize(p):
    w = ((p + (1 << 31)) % (1 << 32)) - (1 << 31)
    return 256 if w < 12000 else 512 if w < 23000 else 1024 if w < 44000 else 2048


def geometry(cont, sub, ch, sr):
    """(blocksize handed to the codec, samplesperblock, bytes per encode call) -- independent of the Lean model"""
    if cont == AIFF:
        return 34, 64, 34 * ch
    ba = srate2blocksize(sr * ch)
    if sub == IMA:
        return ba, 2 * (ba - 4 * ch) // ch + 1, ba
    return ba, 2 + 2 * (ba - 7 * ch) // ch, ba


def fmt_name(cont, sub):
    return "%s-%s" % (CONT_NAME[cont], "ima" if sub == IMA else "ms")


# ---------------------------------------------------------------------------------------------------
# contents: the shorts the codec sees (interleaved)
# ---------------------------------------------------------------------------------------------------

SINE = [0, 3212, 6393, 9512, 12539, 15446, 18204, 20787, 23170, 25329, 27245, 28898, 30273, 31356, 32137, 32609, 32767]


def sine(i, period, amp):
    q = (i * 64 // period) % 64
    v = SINE[q] if q <= 16 else SINE[32 - q] if q <= 32 else -SINE[q - 32] if q <= 48 else -SINE[64 - q]
    return v * amp // 32767


def content(rng, kind, n):
    if n == 0:
        return []
    if kind == "zero":
        return [0] * n
    if kind == "extremes":
        return [rng.choice([32767, -32768, 0, -1, 1, 32766, -32767, 16384, -16384, 255, -256]) for _ in range(n)]
    if kind == "alternate":
        a, b = rng.choice([(32767, -32768), (-32768, 32767), (8000, -8000), (1, -1), (32767, 0)])
        return [a if i % 2 == 0 else b for i in range(n)]
    if kind == "noise":
        return [rng.randrange(-32768, 32768) for _ in range(n)]
    if kind == "ramp":
        inc = rng.choice([1, 3, 517, -517, 4099, -1])
        x0 = rng.choice([0, -32768, 32767, rng.randrange(-32768, 32768)])
        return [((x0 + i * inc + 32768) & 0xFFFF) - 32768 for i in range(n)]
    if kind == "quiet":
        a = rng.choice([1, 2, 3, 7, 40])
        return [rng.randrange(-a, a + 1) for _ in range(n)]
    if kind == "impulse":
        out = [0] * n
        for _ in range(rng.choice([1, 1, 2, 3])):
            out[rng.choice([0, n // 2, n - 1, rng.randrange(n)])] = rng.choice([1, -1, 32767, -32768, 256, -5000])
        return out
    if kind == "sine":
        p, a = rng.choice([8, 20, 50, 160, 333]), rng.choice([100, 3000, 12000, 32767])
        return [sine(i, p, a) for i in range(n)]
    if kind == "loud-quiet":
        k = rng.randrange(0, n + 1)
        return content(rng, rng.choice(["noise", "alternate", "sine"]), k) + content(rng, rng.choice(["zero", "quiet"]), n - k)
    out = []
    while len(out) < n:
        k = min(n - len(out), rng.choice([1, 2, 5, 17, 100, 160, 300, 1000]))
        out += content(rng, rng.choice(CONTENTS[:-1]), k)
    return out


def to_caller(rng, ty, x, flags, exact):
    """a caller value (unsigned bit pattern) of type `ty` around the short x; `exact`: one that converts to x exactly
    (for normalised floats x / 32767 is not exact in general: the model decides what the codec sees)"""
    if ty == "s16":
        return x & 0xFFFF
    if ty == "s32":
        return ((x << 16) | (0 if exact else rng.getrandbits(16))) & M32
    frac = 0.0 if exact or rng.random() < 0.5 else rng.choice([0.5, -0.5, 0.25, 0.49999, -0.49999, 0.75, 1.5, 40000.0, -70000.0, 65536.0])
    if ty == "f32":
        return K.f32bits((x + frac) / 32767.0 if flags.get("normF", 1) else float(x) + frac)
    return K.f64bits((x + frac) / 32767.0 if flags.get("normD", 1) else float(x) + frac)


# ---------------------------------------------------------------------------------------------------
# cutting the library's file
# ---------------------------------------------------------------------------------------------------

W64_DATA = bytes.fromhex("64617461f3acd3118cd100c04f8edb8a")
W64_FACT = bytes.fromhex("66616374f3acd3118cd100c04f8edb8a")


def cut(cont, filehex):
    """(data region hex, frame count stored in the header or None) with this module's own chunk walkers"""
    b = bytes.fromhex(filehex)
    data, hdr = b"", None
    if cont == WAV:
        i = 12
        while i + 8 <= len(b):
            tag, size = b[i:i + 4], struct.unpack("<I", b[i + 4:i + 8])[0]
            if tag == b"fact" and size >= 4:
                hdr = struct.unpack("<I", b[i + 8:i + 12])[0]
            if tag == b"data":
                data = b[i + 8:i + 8 + size]
                break
            i += 8 + size + (size & 1)
    elif cont == AIFF:
        i = 12
        while i + 8 <= len(b):
            tag, size = b[i:i + 4], struct.unpack(">I", b[i + 4:i + 8])[0]
            if tag == b"COMM" and size >= 6:
                hdr = struct.unpack(">I", b[i + 10:i + 14])[0]
            if tag == b"SSND":
                data = b[i + 16:i + 8 + size]
                break
            i += 8 + size + (size & 1)
    else:
        i = 40
        while i + 24 <= len(b):
            guid, size = b[i:i + 16], struct.unpack("<Q", b[i + 16:i + 24])[0]
            if guid == W64_FACT and size >= 32:
                hdr = struct.unpack("<Q", b[i + 24:i + 32])[0]
            if guid == W64_DATA:
                data = b[i + 24:i + size]
                break
            if size < 24:
                break
            i += (size + 7) & ~7
    return data.hex(), hdr


# ---------------------------------------------------------------------------------------------------
# jobs
# ---------------------------------------------------------------------------------------------------

class Job:
    def __init__(self, name, cont, sub, ch, sr, flags, kind, cname, ops, n):
        self.name, self.cont, self.sub, self.ch, self.sr, self.flags, self.kind, self.cname = name, cont, sub, ch, sr, flags, kind, cname
        self.ops, self.n = ops, n                  # ops: ("w", ty, unit, items, values) | ("seek", off, whence); n = frames handed over
        self.word = cont | sub
        self.fmtname = fmt_name(cont, sub)
        self.ba, self.spb, self.bb = geometry(cont, sub, ch, sr)
        self.twin, self.twin2 = None, None
        self.lines, self.mk = None, None

    def calls(self):
        return [o for o in self.ops if o[0] == "w"]

    def harness_script(self):
        lines, mk = [], []

        def add(l, m=None):
            lines.append(l)
            mk.append(m)
        add("open h1 s0 w fmt=%08x ch=%d sr=%d" % (self.word, self.ch, self.sr), "open")
        for l in K.flag_cmds("h1", self.flags):
            add(l)
        for o in self.ops:
            if o[0] == "w":
                add(S.w_line("h1", o[1], o[2], o[3] // self.ch if o[2] == "f" else o[3], o[4]), "w")
            else:
                add("seek h1 %d %d" % (o[1], o[2]), "seek")
        add("close h1")
        add("dump s0", "close")
        add("open h2 s0 r", "reopen")
        for l in K.flag_cmds("h2", {}):
            add(l)
        F = ((self.n + self.spb - 1) // self.spb + 1) * self.spb
        add("r h2 s16 i %d" % ((F + 7) * self.ch), "read")
        add("r h2 s16 i %d" % self.ch, "eof")
        add("close h2")
        self.lines, self.mk = lines, mk
        return "\n".join(lines) + "\n"

    def model_script(self, seekfix=1):
        head = "codec %s ch=%d sr=%d w64=%d seekfix=%d" % (KINDS[(self.cont, self.sub)], self.ch, self.sr, 1 if self.cont == W64 else 0, seekfix)
        head += "".join(" %s=%d" % (k, v) for k, v in sorted(self.flags.items()) if k in ("normF", "normD"))
        lines = [head]
        for o in self.ops:
            if o[0] == "w":
                lines.append("w %s %s %d %s" % (o[1], o[2], o[3] // self.ch if o[2] == "f" else o[3], K.hex_items(o[4], DIG[o[1]])))
            else:
                lines.append("seek %d %d" % (o[1], o[2]))
        lines += ["close", "reopen"]
        return "\n".join(lines) + "\n"


def split_frames(rng, n, spb):
    out, left = [], n
    sizes = [1, 2, 7, spb - 1, spb, spb + 1, 2047, 2048, 2049, 4095, 4096, 4097, n, n] if rng.random() < 0.7 else [1, 1, 2, 3, 7, 29, 100, 64]
    while left > 0:
        k = max(1, min(left, rng.choice(sizes)))
        if len(out) > 40:
            k = left
        out.append(k)
        left -= k
    return out


def lengths_for(spb):
    return [0, 1, 2, spb - 1, spb, spb + 1, 2 * spb - 1, 2 * spb, 2 * spb + 1, 3 * spb, 4097, 2049, 8193]


def make_calls(rng, xs, ch, spb, flags, big=False):
    n = len(xs) // ch
    tys = TYS if rng.random() < 0.6 else [rng.choice(TYS)]
    if big:
        tys = [rng.choice(["s32", "f32", "f64"])]
    exact = rng.random() < 0.5
    ops, i = [], 0
    if big:
        tail = 4097 // ch + rng.randrange(0, 2)
        parts = [n] if rng.random() < 0.6 or n <= tail else [n - tail, tail]
    else:
        parts = split_frames(rng, n, spb)
    for c in parts:
        ty = rng.choice(tys)
        vals = [to_caller(rng, ty, x, flags, exact) for x in xs[i * ch:(i + c) * ch]]
        ops.append(("w", ty, rng.choice("if"), c * ch, vals))
        i += c
    return ops


def anchors(rng):
    """jobs that are part of every run: the corners a random draw meets only now and then"""
    jobs = []
    for i, (cont, sub) in enumerate(COMBOS):
        ch = 1 + i % 2
        sr = [8000, 44100, 32000][i % 3]
        ba, spb, bb = geometry(cont, sub, ch, sr)
        fn = fmt_name(cont, sub)
        # a seek to frame 0 between two writes (refused by the IMA writers, a restart for MS), with its twin
        xs = content(rng, "noise", (2 * spb + 3) * ch)
        a, b = xs[:(spb + 3) * ch], xs[(spb + 3) * ch:]
        ops = [("w", "s16", "i", len(a), [x & 0xFFFF for x in a]), ("w", "s16", "f", len(b), [x & 0xFFFF for x in b])]
        plain = Job("%s-ch%d-anchor-seek0-noseek" % (fn, ch), cont, sub, ch, sr, {}, "twin", "noise", list(ops), 2 * spb + 3)
        j = Job("%s-ch%d-anchor-seek0" % (fn, ch), cont, sub, ch, sr, {}, "seek", "noise", [ops[0], ("seek", 0, 0), ops[1]], 2 * spb + 3)
        j.twin = plain.name
        jobs += [j, plain]
        # the total is a whole number of blocks and the last call ends exactly on a block boundary
        xs = content(rng, "sine", 2 * spb * ch)
        cut1 = (spb + 7) * ch
        ops = [("w", "s16", "i", cut1, [x & 0xFFFF for x in xs[:cut1]]), ("w", "s32", "f", len(xs) - cut1, [(x << 16) & M32 for x in xs[cut1:]])]
        jobs.append(Job("%s-ch%d-anchor-wholeblocks" % (fn, ch), cont, sub, ch, sr, {}, "write", "sine", ops, 2 * spb))
        # one frame pending at close, one frame short of a block at close
        for n in (spb + 1, 2 * spb - 1):
            xs = content(rng, "ramp", n * ch)
            jobs.append(Job("%s-ch%d-anchor-n%d" % (fn, ch, n), cont, sub, ch, sr, {}, "write", "ramp", [("w", "s16", "i", len(xs), [x & 0xFFFF for x in xs])], n))
        # negative ints with non-zero low halves; floats outside [-1, 1] with clipping asked for
        xs = [-(abs(x) | 1) for x in content(rng, "noise", 70 * ch)]
        ops = [("w", "s32", "i", len(xs), [((x << 16) | 0x8001) & M32 for x in xs])]
        jobs.append(Job("%s-ch%d-anchor-negint" % (fn, ch), cont, sub, ch, sr, {}, "write", "noise", ops, 70))
        t = Job("%s-ch%d-anchor-negint-shorts" % (fn, ch), cont, sub, ch, sr, {}, "twin", "noise", [("w", "s16", "i", len(xs), [x & 0xFFFF for x in xs])], 70)
        jobs[-1].kind, jobs[-1].twin = "narrow", t.name
        jobs.append(t)
        vals = [K.f32bits(v) for v in [1.5, -1.5, 2.0, -2.0, 1.0, -1.0, 0.999999, 3.75, -100.0, 0.5] * (7 * ch)]
        jobs.append(Job("%s-ch%d-anchor-clip" % (fn, ch), cont, sub, ch, sr, {"clip": 1}, "write", "extremes", [("w", "f32", "i", len(vals), vals)], 70))
    return jobs


def make_jobs(ctx, njobs, prop):
    rng = ctx.rng
    quick = ctx.tier == "quick"
    jobs = anchors(rng)
    own = OWN_KIND.get(prop, "write")
    budget, spent = 2600 * njobs, 0
    k = 0
    while k < njobs:
        cont, sub = COMBOS[k % len(COMBOS)]
        ch = 1 + (k // len(COMBOS)) % 2
        kind = own if rng.random() < 0.45 else rng.choice(["write", "partition", "seek", "geom", "narrow"])
        sr = rng.choice(SRS[:5]) if rng.random() < 0.8 else rng.choice(SRS)
        if kind == "geom":
            p = rng.choice(GEOM_PRODUCTS)
            sr = max(1, min(p // ch + (rng.choice([0, 1]) if p % ch else 0), (1 << 31) - 1))
        ba, spb, bb = geometry(cont, sub, ch, sr)
        r = rng.random()
        n = rng.choice(lengths_for(spb)) if r < 0.6 else rng.randrange(0, 3 * spb) if r < 0.9 else rng.randrange(2 * spb, 5 * spb + (0 if quick else 20000))
        if kind == "geom":
            n = rng.choice([1, spb - 1, spb, spb + 1, 2 * spb + 1])
        if spent + n * ch > budget * (k + 1) // njobs + (20000 if quick else 80000):
            n = rng.choice([0, 1, 2, spb - 1, spb, spb + 1])
        flags = {}
        if rng.random() < 0.35:
            flags = {"normF": rng.choice([0, 1]), "normD": rng.choice([0, 1])}
            if rng.random() < 0.5:
                flags["clip"] = rng.choice([0, 1])
        cname = rng.choice(CONTENTS)
        big = kind == "partition" and rng.random() < 0.25
        if big:
            n = rng.choice([4097, 2049, 8193, 4096 + rng.randrange(2, 3000)]) // ch + rng.choice([0, 1])
        xs = content(rng, cname, n * ch)
        ops = make_calls(rng, xs, ch, spb, flags, big)
        name = "%s-ch%d-sr%d-n%d-%s-%s-%d" % (fmt_name(cont, sub), ch, sr, n, kind, cname, k)
        k += 1
        spent += n * ch
        if kind == "narrow":
            n = min(n, 3 * spb)
            xs = content(rng, cname, n * ch)
            nops, sops, i = [], [], 0
            for c in split_frames(rng, n, spb):
                part = xs[i * ch:(i + c) * ch]
                if rng.random() < 0.6:
                    vals = [((x << 16) | rng.choice([0x0001, 0x7FFF, 0x8000, 0x8001, 0xFFFF, rng.getrandbits(16)])) & M32 for x in part]
                    nops.append(("w", "s32", rng.choice("if"), c * ch, vals))
                else:
                    ms_ = [rng.randrange(-65535, 65536) for _ in part]
                    ms_ = [m if (m * 32767) % 65536 != 32768 else m + 1 for m in ms_]            # no ties: the nearest integer is unique
                    vals = [K.f64bits(m / 65536.0) for m in ms_]
                    part = [(m * 32767 + 32768) // 65536 for m in ms_]                           # nearest integer to x * 32767 (exact rational arithmetic)
                    nops.append(("w", "f64", rng.choice("if"), c * ch, vals))
                sops.append(("w", "s16", "i", c * ch, [x & 0xFFFF for x in part]))
                i += c
            flags = {k_: v for k_, v in flags.items() if k_ != "normD"}
            j = Job(name, cont, sub, ch, sr, flags, "narrow", cname, nops, n)
            t = Job(name + "-shorts", cont, sub, ch, sr, flags, "twin", cname, sops, n)
            j.twin = t.name
            jobs += [j, t]
            spent += n * ch
            continue
        if kind == "seek" and ops:
            plain = Job(name + "-noseek", cont, sub, ch, sr, flags, "twin", cname, list(ops), n)
            where = sorted({rng.randrange(len(ops) + 1) for _ in range(rng.choice([1, 1, 2, 3]))})
            sops, done = [], 0
            targets = [(0, 0), (0, 0), (0, 1), (1, 0), (5, 0), (spb, 0), (-1, 1), (0, 2), (-1, 2), (-3, 0), (1, 1), (0, 7)]
            if sub == MS:
                targets = [t for t in targets if t != (0, 0)] * 3 + [(0, 0)]      # the restart of an MS writer: correspondence only
            for i, o in enumerate(ops + [None]):
                if i in where:
                    sops.append(("seek",) + rng.choice(targets))
                if o is not None:
                    sops.append(o)
            j = Job(name, cont, sub, ch, sr, flags, "seek", cname, sops, n)
            j.twin = plain.name
            jobs += [j, plain]
            spent += n * ch
            continue
        j = Job(name, cont, sub, ch, sr, flags, kind, cname, ops, n)
        jobs.append(j)
        if kind == "partition" and n > 0:
            merged = []
            for o in ops:
                if merged and merged[-1][1] == o[1]:
                    merged[-1] = ("w", o[1], "i", merged[-1][3] + o[3], merged[-1][4] + o[4])
                else:
                    merged.append(("w", o[1], "i", o[3], list(o[4])))
            t = Job(name + "-twin", cont, sub, ch, sr, flags, "twin", cname, merged, n)
            j.twin = t.name
            jobs.append(t)
            spent += n * ch
            if max(o[3] for o in ops) > 1000:
                small = []
                for o in ops:
                    for a in range(0, o[3], 1000):
                        small.append(("w", o[1], o[2], min(1000, o[3] - a), o[4][a:a + 1000]))
                t2 = Job(name + "-small", cont, sub, ch, sr, flags, "twin", cname, small, n)
                j.twin2 = t2.name
                jobs.append(t2)
                spent += n * ch
    return jobs


# ---------------------------------------------------------------------------------------------------
# running the model
# ---------------------------------------------------------------------------------------------------

def run_model(ctx, scripts, workers=3):
    chunks = [scripts[i::workers] for i in range(workers)]
    chunks = [c for c in chunks if c]

    def one(chunk):
        inp = "".join("== %s\n%s" % (n, t) for (n, t) in chunk)
        out = ctx.run_model(["adpcmenc", "script"], inp, timeout=3600)
        res, cur = {}, None
        for line in out.split("\n"):
            if line.startswith("== "):
                cur = line[3:]
                res[cur] = []
            elif cur is not None and line:
                res[cur].append(line)
        return res

    out = {}
    with concurrent.futures.ThreadPoolExecutor(max_workers=len(chunks) or 1) as ex:
        for r in ex.map(one, chunks):
            out.update(r)
    return out


# ---------------------------------------------------------------------------------------------------
# analysis
# ---------------------------------------------------------------------------------------------------

def kv(line):
    d = {}
    for t in line.split():
        if "=" in t:
            a, b = t.split("=", 1)
            d[a] = b
    return d


class Problem:
    def __init__(self, job, kind, cat, text, line=None, impl=None, model=None, expect=None):
        self.job, self.kind, self.cat, self.text, self.line, self.impl, self.model, self.expect = job, kind, cat, text, line, impl, model, expect
        self.twin_script = None


def analyse(job, impl, model):
    probs = []
    sl, mk = job.lines, job.mk
    info = {"filehex": None, "bytes": 0, "items": 0, "seeks": 0, "refused": 0, "accepted_seek": 0, "frames": None, "hdr": None}
    died = next((l for l in impl if l.startswith(("CRASH", "ABORT", "TIMEOUT"))), None)
    if died is not None:
        return [Problem(job, "pred", "crash", "implementation died: " + died, max(0, min(len(impl), len(sl)) - 1))], info
    if len(impl) < len(sl):
        return [Problem(job, "pred", "crash", "transcript ends early (%d of %d lines)" % (len(impl), len(sl)), len(impl))], info
    mi = 0
    mclose, mreopen = {}, {}
    accepted = 0
    F = None
    for k, (op, out) in enumerate(zip(sl, impl)):
        t = op.split()
        tag = mk[k]
        m = None
        if tag in ("open", "w", "seek", "close", "reopen"):
            m = model[mi] if mi < len(model) else "<missing>"
            mi += 1
        if tag == "open":
            if "open=ok" not in out:
                probs.append(Problem(job, "pred", "open", "open for write failed: %s" % out[:200], k))
                return probs, info
            if m.strip() != "open=ok":
                probs.append(Problem(job, "corr", "open", "the model refuses this geometry", k, out[:100], m))
        elif tag == "w":
            if S.normalise(out) != S.normalise(m):
                probs.append(Problem(job, "corr", "write", "write return value", k, out, m))
            want = t[4]
            if kv(out).get("ret") != want:
                probs.append(Problem(job, "pred", "count", "write of %s %s returned %s" % (want, "frames" if t[3] == "f" else "items", kv(out).get("ret")), k, expect="ret=%s " % want))
            else:
                accepted += int(want) if t[3] == "f" else int(want) // job.ch
        elif tag == "seek":
            a, b = kv(out), kv(m)
            info["seeks"] += 1
            if a.get("ret") == "-1":
                info["refused"] += 1
            elif not (t[2] == "0" and t[3] == "1"):
                info["accepted_seek"] += 1
            if a.get("ret") != b.get("ret") or (a.get("err") == "0") != (b.get("err") == "0"):
                probs.append(Problem(job, "corr", "seek", "sf_seek on the writing handle", k, out, m))
        elif tag == "close":
            fh = out.split("hex=")[1].strip() if "hex=" in out else ""
            info["filehex"] = fh
            data, hdr = cut(job.cont, fh)
            info["bytes"] = len(data) // 2
            info["hdr"] = hdr
            mclose = kv(m)
            md = mclose.get("data", "")
            if data != md:
                d = next((i for i in range(0, min(len(data), len(md)), 2) if data[i:i + 2] != md[i:i + 2]), min(len(data), len(md)))
                probs.append(Problem(job, "corr", "bytes", "data region differs from byte %d (block %d, byte %d of it; lengths %d / %d): implementation …%s model …%s"
                                     % (d // 2, d // 2 // job.bb, d // 2 % job.bb, len(data) // 2, len(md) // 2, data[max(0, d - 8):d + 24], md[max(0, d - 8):d + 24]), k,
                                     "len=%d" % (len(data) // 2), "len=%d" % (len(md) // 2)))
            elif hdr is not None and str(hdr) != mclose.get("hdrfield"):
                probs.append(Problem(job, "corr", "hdrfield", "frame count in the header (fact chunk / numSampleFrames)", k, "hdrfield=%s" % hdr, "hdrfield=%s" % mclose.get("hdrfield")))
        elif tag == "reopen":
            if "open=ok" not in out:
                probs.append(Problem(job, "pred", "open", "the file the library wrote does not open: %s" % out[:200], k))
                return probs, info
            F = int(kv(out).get("frames", -1))
            info["frames"] = F
            mreopen = kv(m)
            if str(F) != mreopen.get("frames"):
                probs.append(Problem(job, "corr", "frames", "frames after re-open", k, out[:120], "frames=%s" % mreopen.get("frames")))
            if info["accepted_seek"] == 0 and not (accepted <= F < accepted + job.spb):
                probs.append(Problem(job, "pred", "frames", "%d frames were accepted by the write calls, the re-opened file has %d (block of %d frames): want N <= F < N + B"
                                     % (accepted, F, job.spb), k, expect="frames=%d " % ((accepted + job.spb - 1) // job.spb * job.spb)))
        elif tag == "read":
            a = kv(out)
            ret = int(a.get("ret", -1))
            got = a.get("data", "")[:max(ret, 0) * 4]
            info["items"] += max(ret, 0)
            if got != mreopen.get("stream", "") and str(F) == mreopen.get("frames"):
                ms = mreopen.get("stream", "")
                d = next((i for i in range(0, min(len(got), len(ms)), 4) if got[i:i + 4] != ms[i:i + 4]), min(len(got), len(ms)))
                probs.append(Problem(job, "corr", "stream", "the re-opened file decodes differently from item %d on (%d / %d items): implementation %s model %s"
                                     % (d // 4, len(got) // 4, len(ms) // 4, got[d:d + 16], ms[d:d + 16]), k))
            if F is not None and ret != F * job.ch:
                probs.append(Problem(job, "pred", "frames", "the re-opened file reports %d frames, a read to the end delivers %d items (%d channels)" % (F, ret, job.ch), k,
                                     expect="ret=%d " % (F * job.ch)))
    return probs, info


def campaign(ctx, njobs, prop):
    jobs = make_jobs(ctx, njobs, prop)
    hs = {j.name: j.harness_script() for j in jobs}
    impl = ctx.batch([(j.name, hs[j.name]) for j in jobs], workers=4, clean=True)
    model = run_model(ctx, [(j.name, j.model_script()) for j in jobs])
    stats = collections.Counter()
    probs, infos = [], {}
    for j in jobs:
        p, info = analyse(j, impl.get(j.name, []), model.get(j.name, []))
        infos[j.name] = info
        probs += p
        stats["jobs"] += 1
        stats["ops"] += len(j.lines)
        stats["frames_written"] += j.n
        stats["write_calls"] += len(j.calls())
        stats["data_region_bytes_compared"] += info["bytes"]
        stats["decoded_items_compared"] += info["items"]
        stats["seeks_compared"] += info["seeks"]
        stats["seeks_refused"] += info["refused"]
        stats["header_frame_counts_compared"] += 1 if info["hdr"] is not None else 0
        stats["fmt:%s-ch%d" % (j.fmtname, j.ch)] += 1
        stats["kind:" + j.kind] += 1
        stats["blocksize:%d" % j.ba] += 1
        ctx.distinct.add("adpcmenc:%s:%d:%d:%s" % (j.fmtname, j.ch, j.ba, j.kind))
        ctx.distinct.add("adpcmenc:content:%s" % j.cname)
    byname = {j.name: j for j in jobs}
    for j in jobs:
        for tn in (j.twin, j.twin2):
            if not tn:
                continue
            t = byname[tn]
            a, b = infos[j.name].get("filehex"), infos[t.name].get("filehex")
            if a is None or b is None:
                continue
            if j.kind == "seek":
                if infos[j.name]["accepted_seek"] or not infos[j.name]["seeks"]:
                    continue
                stats["seek_twins_compared"] += 1
                cat, what = "seekclean", "with %d refused sf_seek calls between the writes and without them" % infos[j.name]["refused"]
            elif j.kind == "narrow":
                stats["narrowing_twins_compared"] += 1
                cat, what = "narrow", "as ints / normalised doubles and as the shorts the conversion rules make of them"
            else:
                stats["twins_compared"] += 1
                cat, what = "partition", "in %d calls and in %d calls" % (len(j.calls()), len(t.calls()))
            if a != b:
                d = next((i for i in range(0, min(len(a), len(b)), 2) if a[i:i + 2] != b[i:i + 2]), min(len(a), len(b)))
                pr = Problem(j, "pred", cat, "the same caller values written %s give files that differ from byte %d (lengths %d / %d)" % (what, d // 2, len(a) // 2, len(b) // 2), None)
                pr.twin_script = hs[t.name]
                probs.append(pr)
                break
    return jobs, hs, probs, stats


CATS = {
    "C02": {"narrow", "crash", "open"},
    "C04": {"frames", "crash", "open"},
    "C05": {"count", "frames", "seekclean", "crash", "open"},
    "C07": {"partition", "seekclean", "crash", "open"},
}


def run(ctx, prop, njobs):
    """called from the property's run(): reports violations; returns True if something was reported"""
    jobs, hs, probs, stats = campaign(ctx, njobs, prop)
    ctx.count(stats["ops"])
    ctx.coverage["traces_validated_against_impl"] += stats["jobs"]
    corr = [p for p in probs if p.kind == "corr"]
    corr_jobs = {p.job.name for p in corr}
    found = False
    reported = set()
    for p in probs:
        if p.kind != "pred" or p.cat not in CATS[prop]:
            continue
        j = p.job
        key = (j.fmtname, p.cat)
        if key in reported or len(reported) >= 3:
            continue
        reported.add(key)
        found = True
        sl = j.lines
        script = "\n".join(sl[:p.line + 1] if p.line is not None else sl) + "\n"
        if p.twin_script:
            script = hs[j.name] + "# --- the same caller values written the other way:\n" + p.twin_script
        head = ""
        if p.expect and p.line is not None:
            head = "expect-last %s\n" % p.expect
        ctx.violation("%s-adpcmenc-%s-%s" % (prop.lower(), j.fmtname, p.cat),
                      "# %s violated on the implementation's own transcript (IMA / MS ADPCM write campaign, predicate '%s')\n# format %s (%08x), %d channel(s), %d Hz, block of %d bytes = %d frames, job kind %s, %d frames, content %s\n# %s\n%s--- script\n%s"
                      % (prop, p.cat, j.fmtname, j.word, j.ch, j.sr, j.bb, j.spb, j.kind, j.n, j.cname, p.text, head, script))
    if corr and not found:
        p = corr[0]
        j = p.job
        ln = p.line or 0
        ctx.violation("%s-adpcmenc-correspondence-%s" % (prop.lower(), j.fmtname),
                      "# correspondence stream 'IMA / MS ADPCM encoder and write-path model (Sf.AdpcmEnc) vs implementation' no longer agrees: %d differences in %d of %d jobs\n"
                      "# first: %s (%s), script line %d: %s\n# %s\n# implementation: %s\n# model: %s\n"
                      "# the %s predicates on the implementation's transcripts found no failing input\n--- script\n%s"
                      % (len(corr), len(corr_jobs), stats["jobs"], j.name, p.cat, ln, j.lines[ln][:100], p.text[:500], (p.impl or "")[:300], (p.model or "")[:300], prop,
                         "\n".join(j.lines[:ln + 1]) + "\n"), no_input=True)
        found = True
    note = {k: v for k, v in sorted(stats.items())}
    note["correspondence_differences"] = len(corr)
    note["predicate_failures_by_category"] = dict(collections.Counter(p.cat for p in probs if p.kind == "pred"))
    ctx.notes["adpcmenc"] = note
    ctx.sample({"kind": "IMA / MS ADPCM write job (%s)" % prop, "jobs": stats["jobs"], "example": next((t for t in hs.values() if len(t) < 900), next(iter(hs.values()))[:900])})
    ctx.coverage["rule"] = (ctx.coverage.get("rule", "") + " | adpcmenc: WAV / W64 x {IMA, MS ADPCM} and AIFF x IMA, 1 and 2 channels, sample rates {8000, 22050, 32000, 44100, 2^30, 11025, 48000, 1, 2^31-1} "
                            "and rates at every threshold of the block-size rule (products 11999/12000, 22999/23000, 43999/44000, 2^31-1/2^31, 2^31+11999/+12000): contents {zero, extremes, "
                            "alternating, noise, ramps, quiet, impulse, sines, loud then quiet, mixtures}, lengths {0,1,2, k*spb-1..k*spb+1 for k=1..3, 2049, 4097, 8193} and random up to 5 blocks, "
                            "written in calls of {1,2,7,spb-1..spb+1,2047..2049,4095..4097,whole} frames of one or mixed caller types (exact and rounding / wrapping float values, normalisation and "
                            "clipping flags on/off), item and frame variants, sf_seek calls of every whence between the writes; data region bytes, header frame count, write / seek return values, "
                            "frames at re-open and every decoded sample of the re-opened file compared with the Lean model (sampled, not exhaustive)")
    return found
