"""L0 geometry of every (container, encoding): block length in frames, pad allowance, sample-rate quantiser.
Written from the format definitions / codec block structures (mirrors lean/SfModel/Geometry.lean), NOT measured from
the implementation; the checks compare the implementation against it."""
from . import formats

IMA, MS, GSM, VOX = 0x12, 0x13, 0x20, 0x21
NMS = (0x22, 0x23, 0x24)
G72X = (0x30, 0x31, 0x32)
DWVW = (0x40, 0x41, 0x42, 0x43)
ALAC = (0x70, 0x71, 0x72, 0x73)


def srate2blocksize(p):
    # the library computes samplerate * channels in a C int: from 2^31 on the product wraps (negative -> smallest block). Any block size is
    # a legal WAV ADPCM file; what matters for C04/C11 is that writer, header and reader agree on it.
    p = ((p + 2 ** 31) % 2 ** 32) - 2 ** 31
    return 256 if p < 12000 else 512 if p < 23000 else 1024 if p < 44000 else 2048


def block_frames(fmt, ch, sr):
    """B: frames per codec block (1 for sample-granular encodings)"""
    c, mj = fmt.codec, fmt.major
    if c == IMA:
        if mj == 0x02:
            return 64
        ba = srate2blocksize(sr * ch)
        return 2 * (ba - 4 * ch) // ch + 1
    if c == MS:
        ba = srate2blocksize(sr * ch)
        return 2 + 2 * (ba - 7 * ch) // ch
    if c == GSM:
        return 320 if mj in (0x01, 0x0B, 0x13, 0x22) else 160
    if c == VOX:
        return 2
    if c in NMS:
        return 160
    if c in G72X:
        return 120
    if mj == 0x05 and c == 0x03:
        return 10      # PAF 24-bit: 10 frames per block
    return 1


def pad_frames(fmt, ch):
    """at most one pad frame where a container pads odd byte counts (C04). No container needs the allowance any more:
    AIFF used to count its SSND pad byte as a frame (KF-AIFF-ODD-PAD, repaired), WAV never did."""
    return 0


def quantise_rate(fmt, sr):
    """the sample rate a re-opened file must report, or None when the container cannot represent sr exactly and only
    the documented quantisation applies (then a tuple (lo, hi) of acceptable values is returned by rate_ok)"""
    return sr


def period_ok(u, bits, sr, got):
    """a sample-period / time-constant field of `bits` bits in units of 1/u s: exactly the documented quantiser -- the period u // sr
    (truncating) read back as u // period (truncating) -- where the field can hold the period; a period the field cannot hold
    (0: rate above the unit; 2^bits and more: rate too low) leaves the rate undefined: any positive rate
    (lean/SfModel/AbsWrite.lean `periodQuant` / `periodOk`)"""
    p = u // sr
    if p == 0 or p >= 2 ** bits:
        return got >= 1
    return got == u // p


def round_f32(n):
    """an integer rounded to binary32 (24 significant bits, ties to even) -- lean/SfModel/AbsWrite.lean `roundF32`, written out
    in integer arithmetic (no struct.pack: the clause must not depend on the host's float conversion)"""
    if n < 2 ** 24:
        return n
    e = n.bit_length() - 1 - 23
    q, r, h = n >> e, n & ((1 << e) - 1), 1 << (e - 1)
    return (q + 1 if (h < r or (r == h and q % 2 == 1)) else q) << e


def rate_ok(fmt, sr, got, ch=None):
    """lean/SfModel/AbsWrite.lean `rateOk` (ch is None) / `rateOkG` (ch given), line by line: every clause accepts EXACTLY the
    model's quantiser value"""
    mj = fmt.major
    if mj == 0x04:
        return True            # RAW has no header: the caller supplies the rate
    if mj in (0x0F, 0x19):     # XI, WVE: fixed
        return True
    if mj in (0x06, 0x21):     # SVX, MPC2K: 16-bit field, saturating (KF-RATE16-WRAP repaired)
        return got == min(sr, 65535)
    if mj == 0x0A:             # IRCAM: float32 field, capped below 2^31 (KF-C10-ircam-rate repaired) -- `float32Quant`
        return got == (round_f32(sr) if sr < 2 ** 31 - 64 else 2 ** 31 - 128)
    if mj in (0x10, 0x11):     # HTK (100 ns, 31 bits), SDS (1 ns, 21 bits): sample period
        u, bits = (10 ** 7, 31) if mj == 0x10 else (10 ** 9, 21)
        return period_ok(u, bits, sr, got)
    if mj == 0x08:             # VOC: the block type decides -- `vocField`
        # type 1 (PCM_U8 mono): 8-bit time constant 256 - 10^6 // sr; type 8 (PCM_U8 stereo): 16-bit, 65536 - 128 * 10^6 // sr;
        # type 9 (everything else): the rate itself
        if ch is None:         # `rateOk`: what one of the three block types answers
            return got == sr or period_ok(10 ** 6, 8, sr, got) or period_ok(128 * 10 ** 6, 16, sr, got)
        if fmt.codec != 0x05:
            return got == sr
        return period_ok(10 ** 6, 8, sr, got) if ch == 1 else period_ok(128 * 10 ** 6, 16, sr, got)
    return got == sr           # integer-Hz or wider fields: WAV, WAVEX, RF64, W64, AIFF, AU, CAF, NIST, PAF, PVF, MAT4, MAT5, AVR, ...


def rate_ok_old(fmt, sr, got):
    """the clauses before round 9 where they differed (VOC: first-order tolerance; IRCAM: nothing asked from 2^31 - 64 on)"""
    if fmt.major == 0x08:
        return abs(got - sr) <= max(1, sr * sr // 10**6 + 1) if 4000 <= sr <= 200000 else True
    if fmt.major == 0x0A:
        return sr >= 2 ** 31 - 64 or got == round_f32(sr)
    return rate_ok(fmt, sr, got)


def lossless_types(fmt):
    """caller types for which the encoding is lossless (C01), with the number of low bits that must be zero"""
    c = fmt.codec
    w = formats.INT_WIDTH.get(c)
    out = {}
    if c in (0x01, 0x05, 0x02, 0x03, 0x04, 0x51) or c in DWVW[:3] or c in ALAC:
        for ty, tb in (("s16", 16), ("s32", 32)):
            out[ty] = max(0, tb - w)       # low bits that must be zero
    if c == 0x50:                          # DPCM_8 is 8 bit
        out = {"s16": 8, "s32": 24}
    if c == 0x06:
        out = {"f32": 0}
    if c == 0x07:
        out = {"f64": 0, "f32": 0}
    return out
