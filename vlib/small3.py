"""Small containers, group 3 (NIST/SPHERE, VOC, XI, MAT5, SDS), L1: the stand-alone Lean models Sf.Nist, ...
(lean/SfModel/<Container>.lean over lean/SfModel/Small2.lean, driver `sfmodel small3 <container>`) against the library.

The machinery is vlib/small2.py's (sessions open / dump / write / header update / dump + copy / write / close / dump /
re-open / read to end of file / re-open of the crash image on library and model, EVERY header byte of the three store
images compared; twin session with another stale SF_INFO.frames; the C04 / C11 predicates on the library's own
transcript with an independent decoder of the size fields; library files and mutated variants through `sf_open` and the
model's `parse`).  This file only adds one `Cont` subclass per container.
"""
import re, struct

from . import formats as FM
from . import small2
from .small2 import Cont, Job, BYTEWIDTH


class Nist(Cont):
    name, major, driver = "nist", 0x07, "small3"
    rates = [1, 9, 10, 8000, 11025, 44100, 65536, 999999999, 1000000000, 2 ** 31 - 1]
    max_mutated = 12           # library files whose mutants are parsed (a NIST header is 1024 bytes)

    lengths = [0, 1, 3, 8, 4097]

    def channels(self, f):
        # SF_ENDIAN_FILE / SF_ENDIAN_CPU are the little-endian file again
        return [c for c in ((1, 2, 3, 10, 1024) if f.endian in (FM.LE, FM.BE) else (2,)) if c <= f.maxch]

    def rate_formats(self, fmts):
        return [f for f in fmts if f.endian == (FM.BE if f.codec in (2, 4) else FM.LE)]

    def order(self, f):
        return 0 if f.codec not in (2, 3, 4) else (FM.BE if f.endian == FM.BE else FM.LE)

    def word(self, f):
        return self.order(f) | (self.major << 16) | f.codec

    @staticmethod
    def fields(b):
        """independent reader of the text header: ordered (key, type, value) triples up to end_head, and the fill"""
        txt = b[:1024]
        end = txt.find(b"end_head\n")
        if end < 0:
            return None, None
        lines = txt[:end].split(b"\n")
        return lines, txt[end + 9:]

    def size_problems(self, j, b, frames):
        out = []
        if len(b) < 1024:
            return ["file shorter than the 1024-byte header"]
        lines, fill = self.fields(b)
        if lines is None:
            return ["no end_head line in the header"]
        bwid = BYTEWIDTH[j.f.codec]
        want = [b"NIST_1A", b"   1024", b"channel_count -i %d" % j.ch, b"sample_rate -i %d" % j.sr]
        if j.f.codec == 1:
            want += [b"sample_coding -s3 pcm", b"sample_n_bytes -i 1", b"sample_sig_bits -i 8"]
        elif j.f.codec in (2, 3, 4):
            want += [b"sample_n_bytes -i %d" % bwid, b"sample_sig_bits -i %d" % (8 * bwid), b"sample_coding -s3 pcm",
                     b"sample_byte_format -s%d %s" % (bwid, b"10" if j.f.endian == FM.BE else b"01")]
        else:
            want += [b"sample_coding -s4 %s" % (b"ulaw" if j.f.codec == 0x10 else b"alaw"), b"sample_n_bytes -s1 1"]
        want += [b"sample_count -i %d" % frames, b""]
        if lines != want:
            out.append("header lines %r, expected %r" % (lines, want))
        if fill.strip(b"\0"):
            out.append("bytes after end_head are not a zero fill")
        if len(b) - 1024 != frames * j.bw:
            out.append("sample_count %d, file holds %d bytes of audio (%d per frame)" % (frames, len(b) - 1024, j.bw))
        return out

    def hdr_len(self, b):
        return 1024

    def mutants(self, b, rng):
        out = []
        txt = b[:1024]
        end = txt.find(b"end_head\n")
        if end < 0:
            return out
        body, rest = txt[:end], b[1024:]

        def build(t):
            t = t[:1024]
            return t + bytes(1024 - len(t)) + rest

        def sub(tag, pat, rep):
            t = re.sub(pat, rep, body, count=1)
            if t != body:
                out.append((tag, build(t + b"end_head\n")))
        for v in (b"0", b"1", b"-1", b"7", b"99999999999", b"x", b"", b"+5", b" 12"):
            sub("count=" + v.decode(), rb"sample_count -i \d+", b"sample_count -i " + v)
            sub("chan=" + v.decode(), rb"channel_count -i \d+", b"channel_count -i " + v)
            sub("rate=" + v.decode(), rb"sample_rate -i \d+", b"sample_rate -i " + v)
            sub("nbytes=" + v.decode(), rb"sample_n_bytes -i \d+", b"sample_n_bytes -i " + v)
        for v in (b"1024", b"1025", b"2147483647", b"2", b"3", b"4", b"5"):
            sub("chan=" + v.decode(), rb"channel_count -i \d+", b"channel_count -i " + v)
            sub("nbytes=" + v.decode(), rb"sample_n_bytes -i \d+", b"sample_n_bytes -i " + v)
        for v in (b"   1024", b"   1023", b"   1025", b"      0", b"     -1", b"   2048", b"1024", b"  99999", b"abcdefg", b"99999999999"):
            out.append(("hlen=" + v.decode().strip(), build(b"NIST_1A\n" + v + body[15:] + b"end_head\n")))
        for v in (b"-s3 pcm", b"-s4 alaw", b"-s4 ulaw", b"-s6 mu-law", b"-s3 PCM", b"-s3  pcm", b"-s3\tpcm", b"-s pcm", b"-s3", b"-s3 ", b"-s5 shorten", b"-s3 pcmx",
                  b"-s-3 pcm", b"-s99999999999 pcm"):
            sub("coding=" + v.decode().replace("\t", "_"), rb"sample_coding -s\d+ \w+", b"sample_coding " + v)
        for v in (b"-s2 01", b"-s2 10", b"-s2 11", b"-s1 1", b"-s1 01", b"-s0 10", b"-s3 10", b"-s4 01", b"-s2", b"-s2 ", b"-s 01", b"-s2 0110", b"-s2 010101010", b"-s-2 01",
                  b"-s4294967298 01", b"-s2\n01"):
            sub("order=" + v.decode().replace("\n", "~"), rb"sample_byte_format -s\d+ \w+", b"sample_byte_format " + v)
        out.append(("add-order", build(body + b"sample_byte_format -s2 10\nend_head\n")))
        out.append(("add-order1", build(body + b"sample_byte_format -s1 1\nend_head\n")))
        out.append(("add-nbytes", build(body + b"sample_n_bytes -i 2\nend_head\n")))
        out.append(("add-coding", build(body + b"sample_coding -s4 alaw\nend_head\n")))
        out.append(("interleaved", build(body + b"channels_interleaved -s5 FALSE\nend_head\n")))
        out.append(("interleaved-sp", build(body + b"channels_interleaved -s5 FALSE end_head\n")))      # the key is a substring test: no newline needed
        out.append(("interleaved-x", build(body + b"channels_interleaved -s5 FALSEend_head\n")))
        out.append(("interleaved-true", build(body + b"channels_interleaved -s4 TRUE\nend_head\n")))
        out.append(("interleaved-late", build(body + b"end_head\nchannels_interleaved -s5 FALSE\n")))
        out.append(("late-chan", build(body + b"end_head\nchannel_count -i 7\n")))
        out.append(("no-end", build(body)))
        out.append(("no-end-junk", build(body) [:1024 - 4] + b"zzzz" + rest))
        out.append(("end-nonl", build(body + b"end_head")))
        out.append(("end-at-1016", build(body + b" " * (1016 - len(body)) + b"end_head") + b""))
        out.append(("crlf", build(body.replace(b"\n", b"\r\n") + b"end_head\r\n")))
        out.append(("crlf-first", build(b"NIST_1A\r\n" + body[8:] + b"end_head\n")))
        out.append(("magic", build(b"NIST_1B\n" + body[8:] + b"end_head\n")))
        out.append(("nul-early", build(body[:40] + b"\0" + body[41:] + b"end_head\n")))
        out.append(("no-chan", build(re.sub(rb"channel_count -i \d+\n", b"", body) + b"end_head\n")))
        out.append(("no-rate", build(re.sub(rb"sample_rate -i \d+\n", b"", body) + b"end_head\n")))
        out.append(("no-coding", build(re.sub(rb"sample_coding -s\d+ \w+\n", b"", body) + b"end_head\n")))
        out.append(("no-nbytes", build(re.sub(rb"sample_n_bytes -i \d+\n", b"", body) + b"end_head\n")))
        out.append(("dup-chan", build(b"NIST_1A\n   1024\nchannel_count -i 3\n" + body[16:] + b"end_head\n")))
        return out


class Voc(Cont):
    """Creative Voice: type 1 block (PCM_U8 mono), type 8 + type 1 (PCM_U8 stereo), type 9 (PCM_16, u-law, A-law), terminator byte"""
    name, major, driver = "voc", 0x08, "small3"
    rates = [1, 1953, 1954, 3906, 3907, 3921, 3922, 8000, 11025, 22050, 44100, 62500, 65536, 333333, 333334, 500000, 500001, 1000000, 1000001,
             64000000, 64000001, 128000000, 128000001, 2 ** 31 - 1]      # around the breakpoints of the 8-bit and the 16-bit divisor
    lengths = [0, 1, 2, 3, 5, 8, 4097]
    # KF-VOC-MONO-G711 / KF-VOC-UPDATE are repaired: no class is waived (the terminator is never counted, update images re-open exactly)

    def channels(self, f):
        return [1, 2]

    def hlen(self, j):
        return (32 if j.ch == 1 else 40) if j.f.codec == 5 else 42

    def quant(self, sr):
        # the 8-bit divisor of the type 1 block (driver `quant`); the 16-bit one is tied through the header bytes
        return 1000000 // (256 - ((256 - 1000000 // sr) % 256))

    def rate_ok_job(self, j, got):
        """C04 for the divisor fields: inside the range the field can hold, the documented quantisation 10^6 / (10^6 / sr)
        (128 * 10^6 for the 16-bit field); outside it the format cannot express the rate and nothing is demanded but a
        positive rate; the type 9 block stores the rate itself"""
        if j.f.codec != 5:
            return got == j.sr
        unit, top = (1000000, 256) if j.ch == 1 else (128000000, 65536)
        d = unit // j.sr
        if 1 <= d < top:
            return got == unit // d
        return got >= 1

    def rate_ok(self, sr, got):
        return self.rate_ok_job(self._job, got)

    def size_problems(self, j, b, frames):
        out = []
        hl = self.hlen(j)
        if len(b) < hl + 1:
            return ["file shorter than header + terminator"]
        if b[:26] != b"Creative Voice File\x1a\x1a\x00\x14\x01\x1f\x11":
            out.append("file header %s" % b[:26].hex())
        if b[-1] != 0:
            out.append("the last byte is not the terminator 00")
        audio = len(b) - hl - 1
        if audio != j.n * j.bw:
            out.append("file holds %d audio bytes, %d written" % (audio, j.n * j.bw))
        blk = b[26:hl]
        if j.f.codec == 5:
            if j.ch == 2:
                d16 = (65536 - 128000000 // j.sr) % 65536
                if blk[:8] != bytes([8, 4, 0, 0, d16 & 255, d16 >> 8, 0, 1]):
                    out.append("type 8 block %s" % blk[:8].hex())
                blk = blk[8:]
            ln = blk[1] | blk[2] << 8 | blk[3] << 16
            if blk[0] != 1 or blk[4] != (256 - 1000000 // j.sr) % 256 or blk[5] != 0:
                out.append("type 1 block %s" % blk.hex())
            if ln != (audio + 2) % 2 ** 24:
                out.append("type 1 block length %d, the block holds 2 + %d bytes" % (ln, audio))
        else:
            ln = blk[1] | blk[2] << 8 | blk[3] << 16
            want = bytes([9]) + blk[1:4] + struct.pack("<IBBHI", j.sr, 16 if j.f.codec == 2 else 8, j.ch, {2: 4, 0x10: 7, 0x11: 6}[j.f.codec], 0)
            if blk != want:
                out.append("type 9 block %s, expected %s" % (blk.hex(), want.hex()))
            if ln != (audio + 12) % 2 ** 24:
                out.append("type 9 block length %d, the block holds 12 + %d bytes" % (ln, audio))
        return out

    def hdr_len(self, b):
        ty = b[26] if len(b) > 26 else 0
        return {1: 32, 8: 40, 9: 42}.get(ty, 27)

    def mutants(self, b, rng):
        out = []
        hl = self.hdr_len(b)
        for v in (0x010A, 0x0114, 0x0113, 0x0100, 0):
            out.append(("version=%04x" % v, b[:22] + struct.pack("<H", v) + b[24:]))
        for v in (0, 26, 27, 0xFFFF):
            out.append(("dataoffset=%d" % v, b[:20] + struct.pack("<H", v) + b[22:]))
        for ty in (0, 1, 2, 3, 4, 7, 8, 9, 10, 255):
            out.append(("type=%d" % ty, b[:26] + bytes([ty]) + b[27:]))
        lpos = {32: 27, 40: 35, 42: 27}.get(hl)
        if lpos:
            ln = b[lpos] | b[lpos + 1] << 8 | b[lpos + 2] << 16
            for v in (0, 1, 2, ln - 2, ln - 1, ln + 1, ln + 2, ln + 3, ln + 4, ln + 5, ln + 6, ln + 7, len(b) - 31, len(b) - 30, (len(b) - 39) // 2, 0xFFFFFF, 0x800000):
                if 0 <= v < 2 ** 24:
                    out.append(("len=%d" % (v - ln), b[:lpos] + struct.pack("<I", v)[:3] + b[lpos + 3:]))
            for d in (1, 2, 3, 5, 6):
                out.append(("grow+%d" % d, b[:-1] + bytes(d) + b[-1:]))
                out.append(("tail+%d" % d, b + bytes(d)))
                if len(b) - hl > d:
                    out.append(("shrink-%d" % d, b[:-1 - d] + b[-1:]))
                    out.append(("cut-%d" % d, b[:-d]))
        if hl == 42:
            for v in (0, 1, 2, 3, 4, 5, 6, 7, 8, 0x0100, 0xFFFF):
                out.append(("enc=%d" % v, b[:36] + struct.pack("<H", v) + b[38:]))
                out.append(("enc16=%d" % v, b[:34] + bytes([16]) + b[35:36] + struct.pack("<H", v) + b[38:]))
            for v in (0, 1, 2, 3, 255):
                out.append(("ch=%d" % v, b[:35] + bytes([v]) + b[36:]))
            for v in (0, 1, 0x7FFFFFFF, 0x80000000, 0xFFFFFFFF):
                out.append(("rate=%d" % v, b[:30] + struct.pack("<I", v) + b[34:]))
        if hl == 40:
            for v in (0, 1, 2, 255):
                out.append(("stereo=%d" % v, b[:33] + bytes([v]) + b[34:]))
            for v in (0, 1, 0xFFFF, 0x8000):
                out.append(("rate16=%d" % v, b[:30] + struct.pack("<H", v) + b[32:]))
            for v in (0, 2, 8, 9):
                out.append(("type2=%d" % v, b[:34] + bytes([v]) + b[35:]))
        if hl == 32:
            for v in (0, 1, 128, 255):
                out.append(("rate8=%d" % v, b[:30] + bytes([v]) + b[31:]))
        return out


class Xi(Cont):
    """FastTracker 2 Extended Instrument: 298-byte instrument header + one 40-byte sample header, DPCM_8 / DPCM_16, mono, 44100 Hz"""
    name, major, driver = "xi", 0x0F, "small3"
    rates = [1, 8000, 44100, 44101, 2 ** 31 - 1]
    lengths = [0, 1, 2, 3, 5, 8, 4097]
    software = None

    def formats(self, ctx):
        fmts = Cont.formats(self, ctx)
        if fmts and self.software is None:
            # the tracker-name field is PACKAGE_NAME "-" PACKAGE_VERSION: a parameter of the model, taken from the library's first header
            lines, rc, err = ctx.script("open h0 s0 w fmt=%08x ch=1 sr=44100\ndump s0\nclose h0\n" % fmts[0].word)
            b = next((small2.parse_dump(l) for l in lines if l.startswith("len=") and "hex=" in l), b"")
            self.software = b[44:64] if len(b) >= 64 else b" " * 20
        return fmts

    def channels(self, f):
        return [1]

    def quant(self, sr):
        return 44100

    def cfg(self, j):
        return "codec=%02x endian=%d ch=%d sr=%d name=%s" % (j.f.codec, j.f.endian >> 28, j.ch, j.sr, self.software.hex())

    def size_problems(self, j, b, frames):
        out = []
        if len(b) < 338:
            return ["file shorter than the 338 bytes of the two headers"]
        if b[:44] != b"Extended Instrument: Default Name          \x1a":
            out.append("marker / instrument name %r" % b[:44])
        if not b[44:64].startswith(b"libsndfile-") or b[64:66] != b"\x02\x01":
            out.append("tracker name / version %r" % b[44:66])
        if b[66:272].strip(b"\0") or b[272:274] != b"\x34\x12" or b[274:296].strip(b"\0") or b[296:298] != b"\x01\x00":
            out.append("instrument tables / fade-out / sample count: %s" % b[260:298].hex())
        ln, lb, le = struct.unpack("<III", b[298:310])
        if (lb, le) != (0, 0) or b[310:316] != bytes([128, 0, 16 if j.f.codec == 0x51 else 0, 128, 0, 9]) or b[316:338] != b"Sample #1" + bytes(13):
            out.append("sample header %s" % b[302:338].hex())
        audio = len(b) - 338
        if audio != j.n * j.bw:
            out.append("file holds %d audio bytes, %d frames of %d bytes written" % (audio, j.n, j.bw))
        if ln != frames % 2 ** 32:
            out.append("sample length field %d, %d frames in the file" % (ln, frames))
        return out

    def hdr_len(self, b):
        return 338

    def mutants(self, b, rng):
        out = []
        for v in (0, 1, 2, 3, 15, 16, 17, 0x7FFF, 0x8000, 0xFFFF):
            out.append(("count=%d" % v, b[:296] + struct.pack("<H", v) + b[298:]))
        for v in (0, 1, len(b) - 338, len(b) - 337, 0x7FFFFFFF, 0x80000000, 0xFFFFFFFF):
            out.append(("len=%d" % v, b[:298] + struct.pack("<I", v % 2 ** 32) + b[302:]))
        for v in (0, 1, 2, 3, 16, 17, 32, 0xEF, 0xFF):
            out.append(("flags=%d" % v, b[:312] + bytes([v]) + b[313:]))
        # files with two and three sample headers (second / third length zero or not)
        extra = bytes(40)
        for cnt, sizes in ((2, (0,)), (2, (5,)), (3, (0, 0)), (3, (0, 7)), (3, (7, 0)), (16, (0,) * 15), (16, (0,) * 14 + (1,))):
            hs = b"".join(struct.pack("<I", z) + extra[4:] for z in sizes)
            out.append(("samples=%d:%s" % (cnt, "".join(str(min(z, 1)) for z in sizes)), b[:296] + struct.pack("<H", cnt) + b[298:338] + hs + b[338:]))
        out.append(("samples=2:short", b[:296] + struct.pack("<H", 2) + b[298:338] + bytes(17)))
        return out


CONTS = [Nist(), Voc(), Xi()]


def run(ctx, found=False, only=None):
    """called from vlib/props/c04.py after the other C04 campaigns; returns True when it reported a violation"""
    return small2.run(ctx, found=found, only=only, conts=CONTS, key="small3")
