"""C18 — ONE write call longer than the staging buffer, UNIQUE channel maxima late in the call (round 8, gap worker gapd).

Why: the seeded peak jobs draw their items from boundary-heavy value sets, so in a call of a few thousand items the extreme
value occurs within the first frames of every channel and the FIRST occurrence is what C18 asks for: the maximum of a long call
was never found behind the first pass of a converting writer (`host_write_s2f / i2f / d2f`, `s2d / i2d / f2d`, the `replace_*`
twins; pass = 2048 floats resp. 1024 doubles, rounded down to whole frames).  A position computed from the pass offset
(`write_current + total / channels + position / channels`) is only exercised when the maximum of some channel lies in the
second, third, … pass.

Class added (always present, whatever the seed): every file encoding (FLOAT, DOUBLE) x every caller type (short, int, the other
floating type, the file's own type) x 1–6 channels, ONE call of more than three passes between two short calls, every channel
with a maximum that occurs exactly once and sits — rotating over the channels and jobs — in the middle of the first pass, in the
first frame of the second pass, in the last frame of the second pass, in the first frame of the third pass, inside a later pass,
in the last frame of the long call, or in the short call behind it.  Containers, SFC_SET_SCALE_INT_FLOAT_WRITE and the
items / frames entry points rotate.  The jobs are ordinary `c18lib.Job`s: judged by `check_peak_job` (true maxima, first frame)
and compared with `sfmodel c18 peak` like every other peak job.  The arithmetic of the pass offset is lean/SfProps/C18Long.lean.
"""
from . import c18lib as L

SPOTS = ["pass0-mid", "pass1-first", "pass1-last", "pass2-first", "later-mid", "long-last", "post"]
CALLERS = ["s16", "s32", "otherfloat", "same"]


def _small(rng, ty):
    """an item of small magnitude (never a candidate for the maximum)"""
    if ty == "s16":
        return rng.randrange(-900, 901) & 0xFFFF
    if ty == "s32":
        return rng.randrange(-(1 << 20), (1 << 20) + 1) & 0xFFFFFFFF
    x = rng.randrange(-400, 401) / 4096.0
    return L.f32b(x) if ty == "f32" else L.f64b(x)


def _big(rng, ty, c):
    """the maximum of channel c: larger than every `_small`, different per channel, either sign"""
    neg = rng.random() < 0.5
    if ty == "s16":
        v = 20000 + 37 * c + rng.randrange(0, 30)
        return (-v if neg else v) & 0xFFFF
    if ty == "s32":
        v = 0x40000000 + (c << 20) + (rng.randrange(0, 1 << 12) << 8)
        return (-v if neg else v) & 0xFFFFFFFF
    x = 0.5 + c / 16.0 + rng.randrange(0, 64) / 4096.0
    x = -x if neg else x
    return L.f32b(x) if ty == "f32" else L.f64b(x)


def jobs(rng, k0):
    out = []
    conts = list(L.CONTAINERS)
    k = k0
    for enc in ("f32", "f64"):
        st = L.STAGE[enc]
        other = "f64" if enc == "f32" else "f32"
        for ci, caller in enumerate(CALLERS):
            ty = {"s16": "s16", "s32": "s32", "otherfloat": other, "same": enc}[caller]
            for ch in range(1, 7):
                passf = (st - st % ch) // ch                      # frames per pass of a converting writer
                pre = (k + ch) % 4                                # frames of the short call in front (0: none)
                post = 2 + k % 3
                longf = 3 * passf + 1 + rng.randrange(1, max(2, passf // 2))      # more than three passes, never a whole number of them
                F = pre + longf + post
                table = [[_small(rng, ty) for _ in range(ch)] for _ in range(F)]
                spots = []
                for c in range(ch):
                    spot = SPOTS[(c + k) % len(SPOTS)]
                    f = {"pass0-mid": passf // 2 + c, "pass1-first": passf, "pass1-last": 2 * passf - 1, "pass2-first": 2 * passf,
                         "later-mid": 3 * passf + (longf - 3 * passf) // 2, "long-last": longf - 1}.get(spot)
                    f = pre + f if f is not None else pre + longf + rng.randrange(0, post)
                    table[f][c] = _big(rng, ty, c)
                    spots.append(spot)
                unit = "if"[(k + ci) % 2]
                cuts = [(0, pre), (pre, pre + longf), (pre + longf, F)]
                calls = [(ty, unit, [table[f][c] for f in range(a, b) for c in range(ch)]) for (a, b) in cuts if b > a]
                container = conts[k % len(conts)]
                scale = (k // 2) % 2
                tags = {"container": container, "enc": enc, "ch": ch, "caller": caller, "scale": scale, "shape": "late-unique", "part": "long",
                        "valmode": "exact32", "frames": F, "spots": spots}
                name = "p%04d-%s-%s-c%d-%s%d-late-unique-long" % (k, container, enc, ch, caller, scale)
                out.append(L.Job(name, container, enc, ch, scale, calls, tags))
                k += 1
    return out
