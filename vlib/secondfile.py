"""C15: genuine OS failures on the SECOND FILE of a handle (SD2 resource fork, ALAC spool file).

The fault campaigns of C15 run on the virtual-I/O route, where a handle has one "file".  Two kinds of handle own a second one:
SD2 (the resource fork `._name`: sd2_open / sd2_write_rsrc_fork work on it with file.filedes and file.savedes SWAPPED) and the
ALAC encoder (a spool file under TMPDIR).  A failure of the second file while the first is healthy — and the other way round — is
reached only with real files:

    side / data kinds (harness/secondfile.c, `second try`):  none | full (symlink to /dev/full: opens, every write ENOSPC) |
    dir (the name is a directory, `.AppleDouble` a plain file: no place for the fork) | dangling (symlink into a missing
    directory: ENOENT) | fsize:<n> (RLIMIT_FSIZE for the session: EFBIG beyond n bytes on fork, data file and spool alike)

Cases (deterministic): every SD2 encoding x {w, rw, r} x every side kind, the data file on /dev/full with a healthy fork, the four
ALAC encodings under fsize 0 / 4096 / 40000 and with the data file on /dev/full (healthy spool).  Each case is its own `ledger begin` … `ledger end` script.
Verdict: Sf.RsrcSwap.obsOk (`sfmodel second judge`): a failing open reports an error, no descriptor is left open, the lowest free
descriptor number is the old one, no close () of the library failed with EBADF (a double close), the heap is balanced.  For the SD2
write opens the outcome (NULL or not, descriptors, EBADF) is also compared with the model (`sfmodel second model`:
Sf.RsrcSwap.session, theorems lean/SfProps/C15Second.lean).
A replay carries `c15-second 1`; `bin/check C15 --replay f` re-runs the script and re-judges it.
"""
import os, shutil, tempfile, subprocess
from . import c15lib as L

SD2 = ((0x160001, "pcm_s8"), (0x160002, "pcm_16"), (0x160003, "pcm_24"), (0x160004, "pcm_32"))
ALAC = ((0x180070, "alac_16"), (0x180071, "alac_20"), (0x180072, "alac_24"), (0x180073, "alac_32"))
SIDES = ("none", "full", "dir", "dangling", "fsize:0", "fsize:100")
# side kind -> (the fork can be opened, its write succeeds)
MODEL = {"none": (1, 1), "full": (1, 0), "dir": (0, 0), "dangling": (0, 0), "fsize:0": (1, 0), "fsize:100": (1, 0)}


def cases():
    out = []
    for i, (word, nm) in enumerate(SD2):
        for mode in ("w", "rw", "r"):
            for side in SIDES:
                if mode == "r" and side.startswith("fsize"):
                    continue
                ch = 1 + (i + len(side)) % 2
                line = "second try s0 %s fmt=%x ch=%d sr=44100 ext=sd2 side=%s frames=%d" % (mode, word, ch, side, 64)
                out.append(("sd2-%s-%s-%s" % (nm, mode, side.replace(":", "")), line, (mode, side)))
        out.append(("sd2-%s-w-datafull" % nm, "second try s0 w fmt=%x ch=2 sr=44100 ext=sd2 side=none data=full frames=64" % word, None))
        out.append(("sd2-%s-w-bothfull" % nm, "second try s0 w fmt=%x ch=2 sr=44100 ext=sd2 side=full data=full frames=64" % word, None))
    for (word, nm) in ALAC:
        for lim in (0, 4096, 40000):
            out.append(("caf-%s-w-fsize%d" % (nm, lim), "second try s0 w fmt=%x ch=2 sr=44100 ext=caf side=fsize:%d frames=6000" % (word, lim), None))
        # the spool is healthy, the DATA file is not: alac_close copies the spool into a file that accepts nothing
        out.append(("caf-%s-w-datafull" % nm, "second try s0 w fmt=%x ch=2 sr=44100 ext=caf side=none data=full frames=6000" % word, None))
    return out


def script_of(line):
    # mode r: a data file of 64 bytes; mode rw: an empty data file (the open creates the fork, as a write open does)
    pre = "store s0 %s\n" % ("00" * 64) if " r fmt=" in line else ""
    return "ledger begin\n%s%s\nledger end\n" % (pre, line)


def judge_lines(ctx, named):
    """named: [(name, transcript lines)] -> {name: (clauses | None, observation line, balance line)}"""
    req, obs = [], {}
    for name, lines in named:
        o = next((l for l in lines if l.startswith("open=")), None)
        b = next((l for l in lines if l.startswith("balance=")), None)
        dead = next((l for l in lines if l.startswith(("TIMEOUT", "CRASH", "ABORT"))), None)
        obs[name] = (o, b, dead)
        if o is None or b is None or dead:
            continue
        d, e = L.kvs(o), L.kvs(b)
        req.append("judge %s null=%d err=%s msglen=%s fds=%s low=%s ebadf=%s blocks=%s" % (
            name, 1 if o.startswith("open=NULL") else 0, d.get("err", "0"), d.get("msglen", "0"), d.get("fds", "0"), d.get("low", "same"),
            d.get("ebadf", "0"), e.get("blocks", "0")))
    verdict = {}
    if req:
        p = subprocess.run([ctx.sfmodel(), "second"], input="\n".join(req) + "\n", capture_output=True, text=True, timeout=300)
        if p.returncode != 0:
            raise RuntimeError("sfmodel second failed: " + p.stderr[-2000:])
        for line in p.stdout.split("\n"):
            t = line.split()
            if len(t) >= 2:
                verdict[t[0]] = [] if t[1] == "ok" else L.kvs(line).get("clause", "?").split(",")
    res = {}
    for name, (o, b, dead) in obs.items():
        if dead:
            res[name] = (["run"], dead, b)
        elif o is None or b is None:
            res[name] = (["run"], "transcript incomplete", b)
        else:
            res[name] = (verdict.get(name, ["no-verdict"]), o, b)
    return res


def campaign(ctx):
    tmp = tempfile.mkdtemp(prefix="second-", dir=os.environ.get("SFVERIF_TMP", "/var/tmp"))
    env = {"SFH_SCRATCH": tmp, "TMPDIR": tmp}
    cs = cases()
    try:
        if not os.path.exists("/dev/full"):
            return [], [], {"skipped": "no /dev/full"}
        out = ctx.batch([(n, script_of(l)) for (n, l, m) in cs], clean=True, op_timeout=10, env=env)
    finally:
        shutil.rmtree(tmp, ignore_errors=True)
    res = judge_lines(ctx, [(n, out.get(n, [])) for (n, l, m) in cs])
    probs, corr = [], []
    stats = {"cases": len(cs), "opens_that_failed": 0, "opens_that_succeeded": 0, "model_answers": 0}
    mreq = []
    for (n, l, m) in cs:
        tags, o, b = res[n]
        ctx.count(1, "second:" + n.rsplit("-", 1)[0])
        if o.startswith("open=NULL"):
            stats["opens_that_failed"] += 1
        elif o.startswith("open=ok"):
            stats["opens_that_succeeded"] += 1
        if tags:
            probs.append((n, tags, "%s | %s" % (o, b), script_of(l)))
        if m and m[0] in ("w", "rw") and o.startswith("open="):
            mreq.append((n, "model fork=%d write=%d" % MODEL[m[1]], o, script_of(l)))
    if mreq:
        ans = ctx.run_model(["second"], "\n".join(r[1] for r in mreq) + "\n").split("\n")
        for (n, q, o, sc), a in zip(mreq, ans):
            d, e = L.kvs(o), L.kvs(a)
            got = "fds=%s ebadf=%s null=%d" % (d.get("fds"), d.get("ebadf"), 1 if o.startswith("open=NULL") else 0)
            stats["model_answers"] += 1
            if got != a.strip():
                corr.append((n, got, a.strip(), sc))
        ctx.coverage["traces_validated_against_impl"] += len(mreq)
    stats["problems"] = len(probs)
    stats["model_disagreements"] = len(corr)
    return probs, corr, stats


def replay_text(n, tags, text, sc):
    return ("# C15 violated on the implementation's own transcript (a genuine OS failure on the second file of a handle: SD2 resource fork / ALAC spool)\n"
            "# case %s: failing clause(s) of Sf.RsrcSwap.obsOk: %s\n# observed: %s\nc15-second 1\n--- script\n%s" % (n, ",".join(tags), text, sc))


def run(ctx):
    probs, corr, stats = campaign(ctx)
    ctx.notes["second_file"] = stats
    for (n, tags, text, sc) in probs[:4]:
        ctx.violation("c15-second-" + n, replay_text(n, tags, text, sc))
    if corr and not probs:
        n, got, want, sc = corr[0]
        ctx.violation("c15-second-correspondence-" + n,
                      "# Sf.RsrcSwap.session and the implementation disagree on %d of %d SD2 write opens; first %s\n# implementation: %s\n# model:          %s\nc15-second 1\n--- script\n%s"
                      % (len(corr), stats["model_answers"], n, got, want, sc), no_input=True)
    return bool(probs)


def is_replay(text):
    return "\nc15-second 1" in "\n" + text


def replay(ctx, path, text):
    script = text.split("--- script", 1)[1].lstrip("\n")
    tmp = tempfile.mkdtemp(prefix="second-", dir=os.environ.get("SFVERIF_TMP", "/var/tmp"))
    try:
        lines = ctx.batch([("replay", script)], clean=True, op_timeout=10, env={"SFH_SCRATCH": tmp, "TMPDIR": tmp})["replay"]
    finally:
        shutil.rmtree(tmp, ignore_errors=True)
    print("\n".join(l[:200] for l in lines))
    tags, o, b = judge_lines(ctx, [("replay", lines)])["replay"]
    if tags:
        print("second file: failing clause(s): %s" % ",".join(tags))
        ctx.report(path)
    else:
        print("replay: the property holds on this script now")
