"""C19 for the modelled stateful codecs (round 5, worker codecs2): two live handles per codec PAIR, merged vs solo.

Classes: G.721 (AU / WAV), G.723 24, G.723 40 (AU), NMS ADPCM 16 / 24 / 32 (RAW / WAV), GSM 06.10 with 33-byte frames (RAW / AIFF) and as
WAV49 (WAV / W64).  For every unordered pair of classes INCLUDING a class with itself (two streams of one codec: where a codec keeping
stream state in a static would show), two workloads (write in several calls + re-open + read back, or write + random reads with refused
seeks; vlib/worldcamp.py `gen_workload`) on their own handles and stores are run alone, each in a fresh process, and merged under two
interleavings; every per-workload transcript (return values, data, error numbers, final store digest) must be identical.
The Lean side is SfProps/C19Codec.lean (`codec_state_is_per_handle`, `codec_interleaving_irrelevant`): the models have no shared
component; this campaign is the observation that the C has none either.
"""
import collections

from . import worldcamp as WC

CLASSES = {0x30: "g721", 0x31: "g723_24", 0x32: "g723_40", 0x22: "nms16", 0x23: "nms24", 0x24: "nms32", 0x20: "gsm"}
WAV49_MAJORS = (0x01, 0x0B, 0x13)     # WAV, W64, WAVEX: the 65-byte WAV49 geometry


def class_of(f):
    if f.codec not in CLASSES:
        return None
    if f.codec == 0x20:
        return "gsm49" if f.major in WAV49_MAJORS else "gsm33"
    return CLASSES[f.codec]


def run(ctx, env, fs, findings):
    """appends findings in the format of vlib/props/c19.py (kind 'group'); returns the statistics"""
    from .props import c19 as C
    rng = ctx.rng
    quick = ctx.tier == "quick"
    by_class = collections.OrderedDict()
    for f in fs:
        c = class_of(f)
        if c is not None:
            by_class.setdefault(c, []).append(f)
    names = sorted(by_class)
    stats = collections.Counter()
    stats["classes"] = len(names)
    groups = []
    for a in range(len(names)):
        for b in range(a, len(names)):
            for rep in range(1 if quick else 3):
                fa, fb = rng.choice(by_class[names[a]]), rng.choice(by_class[names[b]])
                kinds = rng.choice([("w", "rs"), ("rs", "w"), ("w", "w"), ("rs", "rs")])
                chunk = [C.Workload(fa, 1, WC.gen_workload(rng, fa, 1, kind=kinds[0], nops=6)),
                         C.Workload(fb, 1, WC.gen_workload(rng, fb, 1, kind=kinds[1], nops=6))]
                lens = [len(w.lines) for w in chunk]
                for how in ("roundrobin", rng.choice(["bursts", "uniform", "reverse"])):
                    groups.append(C.Group("cp-%s+%s-%d-%s" % (names[a], names[b], rep, how), chunk, WC.merge_order(rng, lens, how), how))
                stats["pairs"] += 1
                ctx.distinct.add("codecpair:%s+%s" % (names[a], names[b]))
    solo = {}
    for g in groups:
        for k, w in enumerate(g.wls):
            solo[(w.uid, k)] = ("cpsolo-%d-%d" % (w.uid, k), "\n".join(g.parts[k]) + "\n")
    batch = list({v[0]: v for v in solo.values()}.values()) + [(g.name, g.text()) for g in groups]
    out = ctx.batch(batch, clean=True, env=env, workers=4)
    for g in groups:
        mo = out.get(g.name, [])
        stats["merged_scripts"] += 1
        stats["merged_ops"] += len(g.merged)
        for k, w in enumerate(g.wls):
            so = out.get(solo[(w.uid, k)][0], [])
            stats["comparisons"] += 1
            if C.dead(so):
                stats["solo_dies"] += 1
                continue
            mine_out = WC.project(mo + ["<missing>"] * (len(g.merged) - len(mo)), g.owners, k)
            d = C.compare(g.parts[k], so, g.parts[k], mine_out)
            if d is not None:
                findings.append(dict(kind="group", name=g.name, k=k, fmt=w.fmt, group=g, diff=d, dead=C.dead(mo), solo=g.parts[k], merged=g.merged,
                                     owners=g.owners, solo_out=so, merged_out=mo))
                stats["differences"] += 1
    return dict(stats)
