"""C08 / C17: COMMANDS AS OPERATIONS of a read/write history.

Why this exists (round 8, seeds C08-calc-all-rdwr-position, C17-calc-signal-lastop and their sibling C18-calc-all-rdwr-readpos):
sf_command is not in the alphabet of C08's histories, and C17's grid judges a query on a handle whose positional state it compares
through the LOGICAL positions only (`sf_seek (0, SEEK_CUR | SFM_READ / SFM_WRITE)`).  A command that scans the file (SFC_CALC_*),
rewrites the header (SFC_UPDATE_HEADER_NOW, auto update) or walks chunks has to restore three things on an SFM_RDWR handle: the read
pointer, the write pointer and the fact WHICH of the two the descriptor currently stands for (`last_op`: the 18 read / write wrappers
re-seek only when the last operation was of the other direction).  A wrong restore shows nowhere but in the place the NEXT write
lands / the frames the NEXT read delivers when no sf_seek lies in between, and only when the two pointers differ.

What is enumerated (deterministic; the seed only picks sample values and which formats get the rotating slice):
  handle    every sample-granular (container, encoding) that opens SFM_RDWR and has a lossless caller type; the file is made inside the
            history (so the predicate knows every frame), re-opened SFM_RDWR
  command   every sf_command that is documented to leave the positions alone (COMMANDS: the four SFC_CALC_*, SFC_GET_SIGNAL_MAX /
            MAX_ALL_CHANNELS, SFC_GET_CURRENT_SF_INFO, LOG_INFO, LIB_VERSION, NORM / CLIPPING getters, EMBED_FILE_INFO, CUE_COUNT / CUE /
            INSTRUMENT / LOOP_INFO / BROADCAST / CART / CHANNEL_MAP getters, RAW_DATA_NEEDS_ENDSWAP, WAVEX_GET_AMBISONIC, BITRATE_MODE,
            ORIGINAL_SAMPLERATE, SFC_UPDATE_HEADER_NOW, SFC_SET_UPDATE_HEADER_AUTO on / off, SFC_SET_ADD_PEAK_CHUNK, the format-table
            queries, an undefined id) plus sf_get_string / getmeta / sf_current_byterate / sf_strerror / full chunk iteration
  history   with the two pointers at DIFFERENT frames (read pointer p, write pointer q; both orders p < q and q < p):
               PRE  in {write, read, seek|SFM_READ, seek|SFM_WRITE, plain seek}      (what the last operation was)
               the command
               POST in {write, read}  WITHOUT a seek                                  (where does it land / what does it deliver)
               position probes, read-back of the frames around the write pointer and around the read pointer
            every (command, PRE, POST) cell on the first encoding of each container in MAIN, a rotating slice elsewhere.
THE PREDICATE is Lean: `Sf.Abs.check` through `sfmodel abs` (a command line is `Op.other`: the abstract state — frames, read position,
write position, streams — is the one from before; clause `Sf.AbsQ.queryOk`).  The position-level model of the scan itself, with the
descriptor and `last_op`, is lean/SfModel/AbsCalc.lean (theorems lean/SfProps/C08Calc.lean: the scan as written restores all three on
every handle state; the two seeded variants do not).
"""
from . import geometry as G, readcamp as R, rdwrtail

MAIN = (0x01, 0x02, 0x03, 0x0B, 0x13, 0x18, 0x22, 0x04)


def commands(h, ch):
    c = lambda i, size, data: "cmd %s %s %d %s" % (h, i, size, data)
    return [("calc-signal-max", [c("1040", 8, "zero")]),
            ("calc-norm-signal-max", [c("1041", 8, "zero")]),
            ("calc-max-all", [c("1042", 8 * ch, "zero")]),
            ("calc-norm-max-all", [c("1043", 8 * ch, "zero")]),
            ("get-signal-max", [c("1044", 8, "zero")]),
            ("get-max-all", [c("1045", 8 * ch, "zero")]),
            ("update-header-now", [c("1060", 0, "null")]),
            ("update-header-auto-on", [c("1061", 1, "null")]),
            ("update-header-auto-off", [c("1061", 0, "null")]),
            ("add-peak-chunk", [c("1050", 1, "null")]),
            ("current-sf-info", [c("1002", 32, "zero")]),
            ("log-info", [c("1001", 512, "zero")]),
            ("lib-version", [c("1000", 64, "zero")]),
            ("get-norm", [c("1010", 0, "null"), c("1011", 0, "null")]),
            ("get-clipping", [c("10c1", 0, "null")]),
            ("embed-info", [c("10b0", 16, "zero")]),
            ("cue-count", [c("10cd", 4, "zero")]),
            ("get-cue", [c("10ce", 284, "zero")]),
            ("get-instrument", [c("10d0", 272, "zero")]),
            ("get-loop-info", [c("10e0", 44, "zero")]),
            ("get-bext", [c("10f0", 864, "zero")]),
            ("get-cart", [c("1401", 2308, "zero")]),
            ("get-chmap", [c("1100", 4 * ch, "zero")]),
            ("endswap", [c("1110", 0, "null")]),
            ("ambisonic", [c("1201", 0, "null")]),
            ("bitrate-mode", [c("1304", 0, "null"), c("1501", 4, "zero")]),
            ("format-tables", [c("1020", 4, "zero"), c("1030", 4, "zero"), c("1028", 24, "zero")]),
            ("undefined-id", [c("1046", 8, "zero")]),
            ("wrong-size-calc", [c("1042", 8 * ch + 4, "zero"), c("1040", 4, "zero")]),
            ("info", ["info %s" % h]),
            ("getstr", ["getstr %s 1" % h]),
            ("getmeta", ["getmeta %s" % h]),
            ("byterate", ["byterate %s" % h]),
            ("strerror", ["strerror %s" % h]),
            ("chunks", ["chunkall %s null" % h])]


PRES = ("w", "r", "sr", "sw", "sb")
POSTS = ("w", "r")


def cell(H, q, pre, post, flip):
    """one (command, PRE, POST) cell on the open read/write handle of H"""
    F = H.F
    lo, hi = 1 + (len(q[0]) + len(pre)) % 3, F - 4 - len(post) % 2
    rp, wp = (hi, lo) if flip else (lo, hi)
    H.seek(rp, 0x10)
    H.seek(wp, 0x20)
    if pre == "w":
        H.write(1, unit="i" if flip else "f")
    elif pre == "r":
        H.read((H.ty, "f" if flip else "i"), 1)
    elif pre == "sr":
        rp = rp + 1
        H.seek(rp, 0x10)
    elif pre == "sw":
        wp = wp - 1
        H.seek(wp, 0x20)
    else:
        H.seek(rp, 0)                                # plain whence: both pointers
        H.seek(wp, 0x20)
        H.read((H.ty, "f"), 1)
    H.L += q[1]
    if post == "w":
        H.write(2, unit="f" if flip else "i")        # no seek since the command: lands at the write pointer
        H.read((H.ty, "f"), 1)                       # and the read pointer is where it was
    else:
        H.read((H.ty, "i" if flip else "f"), 2)      # frames rpos, rpos + 1 of the stream
        H.write(1, unit="f")
    H.probes()
    H.readback(max(H.wpos - 4, 0), 5)
    H.readback(max(rp - 1, 0), 4)


def script(rng, f, ch, ty, lowzero, route, cells):
    H = rdwrtail.Hist(rng, f, ch, ty, lowzero, route, False)
    H.open("w")
    H.write(24 + ch, unit="f")
    H.close()
    H.open("rw")
    H.head = len(H.L)
    H.cells = []
    for j, (q, pre, post) in enumerate(cells):
        a = len(H.L)
        cell(H, q, pre, post, j % 2 == 1)
        H.cells.append((a, len(H.L), q[0], pre, post))
    rdwrtail.finish(H)
    return H


def formats_for(ctx):
    """C08's campaign B list: sample-granular, lossless for some caller type, opens SFM_RDWR"""
    from . import formats
    return [f for f in formats.writable_formats(ctx) if f.granular and f.major != 0x16 and G.lossless_types(f)
            and f.codec not in (0x50, 0x51) and not (f.major == 0x05 and f.codec == 0x03) and f.major != 0x11]


def shrink(ctx, name, f, ch, ty, route, H, k):
    """the failing cell alone behind the file-making head, if that still fails (cells aim both pointers themselves); else None"""
    from . import abslean, querycamp
    c = next((c for c in H.cells if c[0] <= k < c[1]), None)
    if c is None:
        return None
    L = H.L[:H.head] + H.L[c[0]:c[1]] + ["close %s" % H.h]
    text = "\n".join(L) + "\n"
    out = ctx.batch([("shrink-" + name, text)])
    lines = [l for l in out.get("shrink-" + name, []) if l.startswith(ctx.TRANSCRIPT_PREFIXES + ("c ", "end ", "meta ", "pos="))]
    prs, _ = querycamp.pairs_of(text, lines, 0)
    J = abslean.Judge(ctx)
    J.add("shrink-" + name, rdwrtail.geom_of(f, ch, ty, route, False), {}, None, prs)
    v = J.run()["shrink-" + name]
    if v.status == "skip" or v.first() is None:
        return None
    k2, tag, tx = v.first()
    return text, k2, tag, tx, c


def run(ctx, prop, fs, quick=True):
    """fs: sample-granular formats that open SFM_RDWR and have a lossless caller type (C08's campaign B list)"""
    rng = ctx.rng
    jobs = []
    seen = set()
    st = ctx.notes.setdefault("command_ops", {"histories": 0, "cells": 0, "commands": 0, "containers_with_every_cell": 0})
    for i, f in enumerate(fs):
        if not R.raw_bw(f, 1):
            continue
        loss = G.lossless_types(f)
        tys = sorted(loss)
        ty = tys[i % len(tys)]
        ch = 1 if i % 3 else min(2, f.maxch)
        Q = commands("h2", ch)
        st["commands"] = len(Q)
        allc = [(q, pre, post) for q in Q for pre in PRES for post in POSTS]
        full = f.major in MAIN and f.major not in seen
        seen.add(f.major)
        if full or not quick:
            st["containers_with_every_cell"] += 1
            per = 70
            for k in range(0, len(allc), per):
                H = script(rng, f, ch, ty, loss[ty], "fd" if (i + k) % 2 else "vio", allc[k:k + per])
                jobs.append(("cmdops-%s-%s-%d" % (f.name, ty, len(jobs)), f, ch, ty, "fd" if (i + k) % 2 else "vio", False, H))
                st["cells"] += len(allc[k:k + per])
        else:
            # the scanning / rewriting commands in every cell, the others as a rotating slice
            heavy = [c for c in allc if c[0][0].startswith(("calc", "update", "chunks", "getmeta"))]
            rest = [c for c in allc if c not in heavy]
            r0 = rng.randrange(len(rest))
            sel = heavy[(i % 2)::2] + [rest[(r0 + 7 * k) % len(rest)] for k in range(20)]
            H = script(rng, f, ch, ty, loss[ty], "fd" if i % 2 else "vio", sel)
            jobs.append(("cmdops-%s-%s-%d" % (f.name, ty, len(jobs)), f, ch, ty, "fd" if i % 2 else "vio", False, H))
            st["cells"] += len(sel)
    st["histories"] += len(jobs)
    return judge(ctx, prop, jobs)


def judge(ctx, prop, jobs, max_reports=3):
    from . import abslean, absreplay, querycamp
    out = ctx.batch([(name, H.text()) for (name, f, ch, ty, route, rawf, H) in jobs])
    J = abslean.Judge(ctx)
    meta = {}
    for (name, f, ch, ty, route, rawf, H) in jobs:
        lines = [l for l in out.get(name, []) if l.startswith(ctx.TRANSCRIPT_PREFIXES + ("c ", "end ", "meta ", "pos="))]
        prs, sp = querycamp.pairs_of(H.text(), lines, 0)
        geom = rdwrtail.geom_of(f, ch, ty, route, False)
        J.add(name, geom, {}, None, prs)
        meta[name] = (geom, len(prs))
    verdicts = J.run()
    found = False
    reported = set()
    for (name, f, ch, ty, route, rawf, H) in jobs:
        v = verdicts[name]
        geom, njudged = meta[name]
        ctx.count(len(H.L), tag="command-ops:" + f.name)
        if v.status == "skip":
            ctx.notes["command_ops"]["refused_at_open"] = ctx.notes["command_ops"].get("refused_at_open", 0) + 1
            continue
        prob = None
        if v.first() is not None:
            k, tag, text = v.first()
            prob = (k, tag, "Lean predicate Sf.Abs.check: clause `%s` fails: %s" % (tag, text.strip()))
        elif njudged < len(H.L):
            prob = (njudged, None, "transcript ends early (the call did not return / the process died)")
        if not prob:
            continue
        key = f.name.split("-")[0]
        if key in reported or len(reported) >= max_reports:
            continue
        reported.add(key)
        found = True
        k, tag, text = prob
        script_text, L, cellnote = H.text(), H.L, ""
        if tag:
            sh = shrink(ctx, name, f, ch, ty, route, H, k)
            if sh:
                script_text, k, tag, tx, c = sh
                L = script_text.strip().split("\n")
                text = "Lean predicate Sf.Abs.check: clause `%s` fails: %s" % (tag, tx.strip())
                cellnote = "# cell: command `%s`, last operation before it `%s`, first operation after it `%s` (w = write, r = read, sr / sw / sb = seek of the read / write / both pointers)\n" % c[2:]
        # the command in front of the failing line
        cmdline = next((l for l in reversed(L[:k]) if l.split()[0] not in ("r", "w", "seek", "open", "close")), "?")
        body = (absreplay.plain_replay(script_text, k, geom, 0, clause=tag) if tag else "--- script\n" + "\n".join(L[:k + 1]) + "\n")
        ctx.violation("%s-%s" % (prop.lower(), name),
                      "# %s violated on the implementation's own transcript: a command between two audio calls of a read/write handle moved a position\n"
                      "# (read pointer, write pointer, or which of the two the descriptor stands for)\n"
                      "# format %s, %d channel(s), type %s, route %s\n%s# at script line %d: %s\n# the last command in front of it: %s\n# %s\n%s"
                      % (prop, f.name, ch, ty, route, cellnote, k, L[k][:100] if k < len(L) else "", cmdline, text, body))
    return found
