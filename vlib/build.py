"""Build cache: sanitizer build of /repo's *current working tree*, the C harness, the Lean project.

Nothing here writes into /repo.  Builds live under ${SFVERIF_CACHE:-/var/tmp/sfverif}/<hash>-<variant>;
the hash covers every file that can influence the library (src/, include/, cmake/, CMakeLists.txt), read
from the working tree (so uncommitted edits count), plus the harness sources.
"""
import hashlib, os, subprocess, shutil, sys, time, fcntl, glob

VERIF = os.path.dirname(os.path.dirname(os.path.abspath(__file__)))
REPO = os.environ.get("SFVERIF_REPO", "/repo")
CACHE = os.environ.get("SFVERIF_CACHE", "/var/tmp/sfverif-cache")
LEAN_DIR = os.path.join(VERIF, "lean")
HARNESS_DIR = os.path.join(VERIF, "harness")
GUARD = "LIBSNDFILE_VERIF"
# SFVERIF_COVERAGE=1 (tools/coverage.py): the same builds with gcov counters, kept apart from the ordinary ones by a "-cov" suffix
COVERAGE = os.environ.get("SFVERIF_COVERAGE") == "1"

VARIANTS = {
    # name: extra C flags
    "asan": "-O1 -g -fno-omit-frame-pointer -fsanitize=address -D%s=1" % GUARD,
    # lrint variant (sfconfig.h turns USE_SSE2 on whenever gcc predefines __SSE2__)
    "asan-lrint": "-O1 -g -fno-omit-frame-pointer -fsanitize=address -U__SSE2__ -D%s=1" % GUARD,
}


def _walk_files(root):
    out = []
    for d, dirs, files in os.walk(root):
        dirs.sort()
        for f in sorted(files):
            out.append(os.path.join(d, f))
    return out


def repo_hash():
    h = hashlib.sha256()
    paths = []
    for sub in ("src", "include", "cmake"):
        paths += _walk_files(os.path.join(REPO, sub))
    paths.append(os.path.join(REPO, "CMakeLists.txt"))
    for p in paths:
        try:
            with open(p, "rb") as f:
                data = f.read()
        except OSError:
            continue
        h.update(os.path.relpath(p, REPO).encode())
        h.update(b"\0")
        h.update(hashlib.sha256(data).digest())
    return h.hexdigest()[:16]


def harness_hash():
    h = hashlib.sha256()
    for p in sorted(glob.glob(os.path.join(HARNESS_DIR, "*.[ch]"))):
        with open(p, "rb") as f:
            h.update(os.path.basename(p).encode() + b"\0" + f.read())
    return h.hexdigest()[:16]


class Lock:
    def __init__(self, path):
        self.path = path

    def __enter__(self):
        os.makedirs(os.path.dirname(self.path), exist_ok=True)
        self.f = open(self.path, "w")
        fcntl.flock(self.f, fcntl.LOCK_EX)
        return self

    def __exit__(self, *a):
        fcntl.flock(self.f, fcntl.LOCK_UN)
        self.f.close()


def run(cmd, cwd=None, env=None, timeout=None, check=True, quiet=True):
    p = subprocess.run(cmd, cwd=cwd, env=env, timeout=timeout, stdout=subprocess.PIPE,
                       stderr=subprocess.STDOUT, text=True, errors="replace")
    if check and p.returncode != 0:
        sys.stderr.write("command failed: %s\n%s\n" % (" ".join(cmd), p.stdout[-8000:]))
        raise RuntimeError("command failed: %s" % cmd[0])
    return p


def _prune(keep_prefix):
    """Delete builds of older source hashes (disk is limited)."""
    if not os.path.isdir(CACHE):
        return
    for d in os.listdir(CACHE):
        full = os.path.join(CACHE, d)
        if os.path.isdir(full) and not d.startswith(keep_prefix) and d != "locks":
            # keep at most the current one
            try:
                age = time.time() - os.path.getmtime(full)
            except OSError:
                continue
            if age > 4 * 3600:  # do not race with a concurrent check of another tree
                shutil.rmtree(full, ignore_errors=True)


def ensure_lib(variant="asan"):
    """Return directory containing libsndfile.a built from the current working tree."""
    rh = repo_hash()
    flags = VARIANTS[variant]
    if COVERAGE:
        variant, flags = variant + "-cov", flags + " --coverage"
    bdir = os.path.join(CACHE, "%s-%s" % (rh, variant))
    lib = os.path.join(bdir, "libsndfile.a")
    with Lock(os.path.join(CACHE, "locks", "%s-%s.lock" % (rh, variant))):
        if os.path.exists(lib) and os.path.exists(os.path.join(bdir, ".ok")):
            os.utime(bdir)
            return bdir
        shutil.rmtree(bdir, ignore_errors=True)
        os.makedirs(bdir)
        cfg = ["cmake", "-G", "Ninja", "-S", REPO, "-B", bdir, "-DCMAKE_BUILD_TYPE=None",
               "-DCMAKE_C_FLAGS=" + flags, "-DBUILD_TESTING=OFF", "-DBUILD_PROGRAMS=OFF",
               "-DBUILD_EXAMPLES=OFF", "-DENABLE_EXTERNAL_LIBS=OFF", "-DENABLE_MPEG=OFF",
               "-DBUILD_REGTEST=OFF", "-DENABLE_CPACK=OFF", "-DENABLE_PACKAGE_CONFIG=OFF",
               "-DBUILD_SHARED_LIBS=OFF"]
        r = run(cfg, check=False)
        if r.returncode != 0:
            raise BuildError("cmake configure failed", r.stdout)
        r = run(["ninja", "-C", bdir, "sndfile"], check=False)
        if r.returncode != 0:
            raise BuildError("library does not compile", r.stdout)
        open(os.path.join(bdir, ".ok"), "w").write(rh)
        _prune(rh)
    return bdir


class BuildError(Exception):
    def __init__(self, msg, log=""):
        super().__init__(msg)
        self.log = log


def ensure_harness(variant="asan"):
    """Return path of the sfh binary linked against the current tree's library."""
    bdir = ensure_lib(variant)
    hh = harness_hash()
    exe = os.path.join(bdir, "harness-" + hh + ".bin")
    with Lock(os.path.join(CACHE, "locks", "h-%s.lock" % os.path.basename(bdir))):
        if os.path.exists(exe):
            os.utime(exe)
            os.utime(bdir)
            return exe
        for old in glob.glob(os.path.join(bdir, "harness-*.bin")):
            try:
                if time.time() - os.path.getmtime(old) > 6 * 3600:   # other workers may be using other harness versions
                    os.unlink(old)
            except OSError:
                pass
        srcs = sorted(glob.glob(os.path.join(HARNESS_DIR, "*.c")))
        cmd = ["gcc", "-O1", "-g", "-fno-omit-frame-pointer", "-fsanitize=address", "-D%s=1" % GUARD,
               "-Wall", "-Wno-unused-function", "-I", os.path.join(REPO, "include"), "-I", os.path.join(bdir, "include"),
               "-I", os.path.join(REPO, "src"), "-I", os.path.join(bdir, "src"), "-I", bdir,
               "-o", exe + ".tmp"] + (["-DSFH_COVERAGE=1"] if COVERAGE else []) + srcs + [os.path.join(bdir, "libsndfile.a"), "-lm"] + (["-lgcov"] if COVERAGE else [])
        r = run(cmd, check=False)
        if r.returncode != 0:
            raise BuildError("harness does not compile against this tree", r.stdout)
        os.rename(exe + ".tmp", exe)
    return exe


def lean_lock():
    """one lock per working copy: everything that writes OR reads .olean files of lean/ (lake build, the axiom audit, leanchecker) runs under it --
    a check that regenerates a table makes another check's `lake build` rewrite object files, and an audit reading them meanwhile saw nothing"""
    return Lock(os.path.join(CACHE, "locks", "lean-%s.lock" % hashlib.sha256(LEAN_DIR.encode()).hexdigest()[:8]))


def lean_build(targets=None, timeout=3600):
    """lake build; returns (ok, log)."""
    cmd = ["lake", "build"] + (targets or [])
    with lean_lock():
        p = run(cmd, cwd=LEAN_DIR, check=False, timeout=timeout)
    return p.returncode == 0, p.stdout


def sfmodel_exe():
    return os.path.join(LEAN_DIR, ".lake", "build", "bin", "sfmodel")
