"""C20 — the portable IEEE path (`replace_*`, SFC_TEST_IEEE_FLOAT_REPLACE) through EVERY caller type (round 8, gap worker gapd).

vlib/ieee.py drives the portable serialisers through the public API with the file's own type only (`replace_write_f` / `_d`,
`replace_read_f` / `_d`).  float32.c / double64.c have six more entry points per file type — `replace_write_s2f / i2f / d2f`,
`replace_read_f2s / f2i / f2d` and the double64.c twins — each with its own staging loop, its own call of `f2bf_array` /
`bf2f_array` and its own byte-swap pass for a file whose byte order is not the CPU's.  This stream crosses

    file type (FLOAT, DOUBLE) x file byte order (little, big) x direction x caller type (short, int, float, double)
    x SFC_SET_SCALE_INT_FLOAT_WRITE (int callers) / SFC_SET_SCALE_FLOAT_INT_READ and clipping (int readers)

with ONE call longer than two staging buffers each (several passes; a pass boundary inside the call), once with the portable
path switched on and once on the native path of the same library.  The C20 statement — "the portable IEEE-754 serialisers and
deserialisers used when the CPU format differs produce exactly the native representation for every finite normal value" — is
asked of the two transcripts: the closed files (writes) resp. the delivered items (reads) must be identical.  Every value whose
file-typed form is not a finite normal number or zero is kept out of the vectors, so any difference is a violation with the
differing item as its input.  Lean side: lean/SfProps/C20Cross.lean (`replace_write_cross_f32 / _f64`, `replace_read_cross_f32 /
_f64`: the staged conversion of every caller type composed with the portable path equals `Sf.Enc.encode` / `decode`).
No harness additions (open / cmd / w / r / close / dump / store).
"""
import random, struct, time
from . import ieee

TYS = ["s16", "s32", "f32", "f64"]
DIG = {"s16": 4, "s32": 8, "f32": 8, "f64": 16}
N = 4400          # items per call: more than two passes of the 2048-float / 1024-double staging buffer


def f32b(x):
    return struct.unpack("<I", struct.pack("<f", x))[0]


def f64b(x):
    return struct.unpack("<Q", struct.pack("<d", x))[0]


def b2f32(b):
    return struct.unpack("<f", struct.pack("<I", b))[0]


def b2f64(b):
    return struct.unpack("<d", struct.pack("<Q", b))[0]


def _normal_floats(rng, n, digits, lo=-100, hi=100):
    """finite normal patterns with an exponent in [lo, hi], both signs, mantissa corners"""
    mb, bias = (23, 127) if digits == 8 else (52, 1023)
    full = (1 << mb) - 1
    out = []
    for i in range(n):
        e = bias + (rng.randrange(lo, hi + 1) if i % 3 else rng.choice([-1, 0, 1, -15, -14, 14, 15, lo, hi]))
        m = rng.choice([0, 1, full, full - 1, 1 << (mb - 1)]) if rng.random() < 0.25 else rng.getrandbits(mb)
        out.append((rng.getrandbits(1) << (mb + (8 if digits == 8 else 11))) | (e << mb) | m)
    return out


def caller_values(rng, ty, ftype, n):
    """caller items whose file-typed value is a finite normal number or zero"""
    if ty == "s16":
        sp = [0, 1, -1, 32767, -32768, 255, 256, -256, 0x1234, -0x1234]
        return [(sp[i] if i < len(sp) else rng.randrange(-32768, 32768)) & 0xFFFF for i in range(n)]
    if ty == "s32":
        sp = [0, 1, -1, 2**31 - 1, -2**31, 0x7FFFFF80, 0x01000001, -0x01000001, 0x00FFFFFF, 65536, -65537]
        return [(sp[i] if i < len(sp) else (rng.randrange(-2**31, 2**31) if i % 2 else rng.randrange(-2**24, 2**24))) & 0xFFFFFFFF for i in range(n)]
    if ty == "f32":
        return _normal_floats(rng, n, 8)                 # a binary32 is a normal binary64 after widening
    # doubles: into a FLOAT file they are rounded to binary32 — exponents well inside the binary32 normal range
    return _normal_floats(rng, n, 16, -100, 100) if ftype == "f32" else _normal_floats(rng, n, 16, -900, 900)


def file_patterns(rng, ftype, n):
    """stored samples for the read direction: finite normal values of modest magnitude (so that the int conversions are defined), zeros"""
    digits = 8 if ftype == "f32" else 16
    vals = _normal_floats(rng, n, digits, -40, 0) + _normal_floats(rng, n // 8, digits, 1, 20)
    rng.shuffle(vals)
    vals = vals[:n]
    vals[0], vals[1] = 0, f32b(1.0) if digits == 8 else f64b(1.0)
    return vals


def fmt_word(ftype, be):
    return (0x20000000 if be else 0x10000000) | 0x040000 | (6 if ftype == "f32" else 7)


def hexitems(vals, digits):
    return "".join("%0*x" % (digits, v) for v in vals)


def write_script(vecs, ftype, be, replace, ch):
    """one file per (caller type, scale flag): open, [replace], [scale], ONE long call, close, dump"""
    L, tags = [], []
    k = 0
    for ty in TYS:
        for scale in ((0, 1) if ty in ("s16", "s32") else (0,)):
            h, s = "h%d" % k, "s%d" % k
            L.append("open %s %s w fmt=%08x ch=%d sr=8000" % (h, s, fmt_word(ftype, be), ch))
            if replace:
                L.append("cmd %s 6001 1 null" % h)
            if scale:
                L.append("cmd %s 1015 1 null" % h)
            v = vecs[ty]
            L.append("w %s %s i %d %s" % (h, ty, len(v), hexitems(v, DIG[ty])))
            L += ["close " + h, "dump " + s]
            tags.append((ty, scale))
            k += 1
    return "\n".join(L) + "\n", tags


READ_VARIANTS = [("s16", ""), ("s16", "clip"), ("s16", "fimult"), ("s32", ""), ("s32", "clip"), ("s32", "fimult"), ("f32", ""), ("f64", "")]


def read_script(store_hex, n, ftype, be, replace, ch):
    L = ["store s0 " + store_hex]
    for k, (ty, var) in enumerate(READ_VARIANTS):
        h = "h%d" % k
        L.append("open %s s0 r fmt=%08x ch=%d sr=8000" % (h, fmt_word(ftype, be), ch))
        if replace:
            L.append("cmd %s 6001 1 null" % h)
        if var == "clip":
            L.append("cmd %s 10c0 1 null" % h)
        if var == "fimult":
            L.append("cmd %s 1014 1 null" % h)           # SFC_SET_SCALE_FLOAT_INT_READ: runs the double scan (replace_read_f2d / _d) first
        L.append("r %s %s i %d" % (h, ty, n))
        L.append("close " + h)
    return "\n".join(L) + "\n"


def _payloads(lines, key, script=None, op=None):
    """payload of every transcript line that holds `key`; with `script` / `op`: only the lines of the script's `op` operations (one transcript line per op)"""
    if script is not None:
        ops = script.strip().split("\n")
        lines = [l for o, l in zip(ops, lines) if o.split()[0] == op] if len(lines) >= len(ops) else []
    return [l.split(key, 1)[1].strip() for l in lines if key in l and not l.startswith(("CRASH", "ABORT", "TIMEOUT"))]


def run(ctx):
    """-> (found_input, stats)"""
    t0 = time.time()
    rng = random.Random(ctx.seed * 104729 + 5)
    stats = {"streams": 0, "items": 0, "differing_streams": 0}
    jobs = {}
    scripts = []
    for ftype in ("f32", "f64"):
        digits = 8 if ftype == "f32" else 16
        for be in (False, True):
            ch = 2 if be else 1
            vecs = {ty: caller_values(rng, ty, ftype, N) for ty in TYS}
            pats = file_patterns(rng, ftype, N)
            store = hexitems(pats, digits)
            store = store if be else ieee.swap_items(store, digits)
            for replace in (1, 0):
                ws, tags = write_script(vecs, ftype, be, replace, ch)
                nm = "x-w-%s-%s-%d" % (ftype, "be" if be else "le", replace)
                scripts.append((nm, ws))
                nm = "x-r-%s-%s-%d" % (ftype, "be" if be else "le", replace)
                scripts.append((nm, read_script(store, N, ftype, be, replace, ch)))
            jobs[(ftype, be)] = (vecs, pats, store, tags, ch)
    res = ctx.batch(scripts, op_timeout=30, clean=True, workers=4)
    found = False
    for (ftype, be), (vecs, pats, store, tags, ch) in jobs.items():
        digits = 8 if ftype == "f32" else 16
        bo = "be" if be else "le"
        # ---- writes ----
        rep, nat = res.get("x-w-%s-%s-1" % (ftype, bo), []), res.get("x-w-%s-%s-0" % (ftype, bo), [])
        dr, dn = _payloads(rep, "hex="), _payloads(nat, "hex=")
        if len(dr) != len(tags) or len(dn) != len(tags):
            found = True
            ctx.violation("ieee-cross-w-%s-%s-run" % (ftype, bo), "# C20 (portable IEEE path x caller types): the write scripts did not complete (%d / %d of %d files dumped)\n# last lines: %r / %r\n--- script\n%s"
                          % (len(dr), len(dn), len(tags), rep[-1:], nat[-1:], write_script(vecs, ftype, be, 1, ch)[0][:100000]))
            continue
        for (ty, scale), a, b in zip(tags, dr, dn):
            stats["streams"] += 1
            stats["items"] += N
            ctx.count(N, tag="ieee-cross-w-%s-%s-%s-%d" % (ftype, bo, ty, scale))
            ctx.coverage["traces_validated_against_impl"] += 1
            if a == b:
                continue
            stats["differing_streams"] += 1
            found = True
            k = next((i for i in range(min(len(a), len(b)) // (digits)) if a[i * digits:(i + 1) * digits] != b[i * digits:(i + 1) * digits]), 0)
            item = vecs[ty][k]
            one = _one_write(ctx, ftype, be, ty, scale, ch, vecs[ty], k)
            ctx.violation("ieee-cross-w-%s-%s-%s%d" % (ftype, bo, ty, scale), one or _write_text(ftype, be, ty, scale, ch, vecs[ty], k, a, b, digits))
        # ---- reads ----
        rep, nat = res.get("x-r-%s-%s-1" % (ftype, bo), []), res.get("x-r-%s-%s-0" % (ftype, bo), [])
        rs1, rs0 = read_script(store, N, ftype, be, 1, ch), read_script(store, N, ftype, be, 0, ch)
        dr, dn = _payloads(rep, "data=", rs1, "r"), _payloads(nat, "data=", rs0, "r")
        if len(dr) != len(READ_VARIANTS) or len(dn) != len(READ_VARIANTS):
            found = True
            ctx.violation("ieee-cross-r-%s-%s-run" % (ftype, bo), "# C20 (portable IEEE path x caller types): the read scripts did not complete (%d / %d of %d reads)\n# last lines: %r / %r\n"
                          "# the script below is the handle on which the process died (SFC_TEST_IEEE_FLOAT_REPLACE on), cut to a few frames if that still dies\n--- script\n%s"
                          % (len(dr), len(dn), len(READ_VARIANTS), rep[-1:], nat[-1:], _died_block(ctx, rs1, rep, pats, digits, be, ch)))
            continue
        for (ty, var), a, b in zip(READ_VARIANTS, dr, dn):
            stats["streams"] += 1
            stats["items"] += N
            ctx.count(N, tag="ieee-cross-r-%s-%s-%s-%s" % (ftype, bo, ty, var or "plain"))
            ctx.coverage["traces_validated_against_impl"] += 1
            if a == b:
                continue
            stats["differing_streams"] += 1
            found = True
            d = DIG[ty]
            k = next((i for i in range(min(len(a), len(b)) // d) if a[i * d:(i + 1) * d] != b[i * d:(i + 1) * d]), 0)
            ctx.violation("ieee-cross-r-%s-%s-%s%s" % (ftype, bo, ty, var), _read_text(ftype, be, ty, var, ch, pats, k, a, b, digits))
    stats["wall_s"] = round(time.time() - t0, 1)
    ctx.notes["ieee_cross"] = stats
    ctx.coverage["rule"] += ("; portable IEEE path x caller types (vlib/ieeecross.py): FLOAT / DOUBLE RAW files of both byte orders, every write entry point (short, int with and without "
                             "SFC_SET_SCALE_INT_FLOAT_WRITE, float, double) and every read entry point (short / int plain, clipping, SFC_SET_SCALE_FLOAT_INT_READ; float; double), one call of "
                             "%d items (more than two staging passes), SFC_TEST_IEEE_FLOAT_REPLACE on vs off: files / delivered items identical" % N)
    return found, stats


def _var_cmds(h, var):
    return {"clip": ["cmd %s 10c0 1 null" % h], "fimult": ["cmd %s 1014 1 null" % h]}.get(var, [])


def _one_write(ctx, ftype, be, ty, scale, ch, vec, k):
    """the differing item alone (one frame): a replay with `expect-last` = the native file, if it still differs"""
    fr = (k // ch) * ch
    items = vec[fr:fr + ch]
    outs = []
    for replace in (1, 0):
        L = ["open h0 s0 w fmt=%08x ch=%d sr=8000" % (fmt_word(ftype, be), ch)] + (["cmd h0 6001 1 null"] if replace else []) + (["cmd h0 1015 1 null"] if scale else [])
        L += ["w h0 %s i %d %s" % (ty, len(items), hexitems(items, DIG[ty])), "close h0", "dump s0"]
        lines, rc, err = ctx.script("\n".join(L) + "\n")
        outs.append((L, lines[-1].split("hex=")[1].strip() if lines and "hex=" in lines[-1] else None))
    (Lr, a), (_, b) = outs
    if a is None or b is None or a == b:
        return None
    return ("# C20 (portable IEEE path through sf_write_%s, %s file, %s-endian, SFC_SET_SCALE_INT_FLOAT_WRITE %s): the file written with SFC_TEST_IEEE_FLOAT_REPLACE on\n"
            "# is not the native representation. item(s) %s: portable path %s, native path of the same library %s\n"
            "# (first differing item of a %d-item call; the item alone shows it)\nexpect-last hex=%s\n--- script\n%s\n"
            % ({"s16": "short", "s32": "int", "f32": "float", "f64": "double"}[ty], "FLOAT" if ftype == "f32" else "DOUBLE", "big" if be else "little", "on" if scale else "off",
               hexitems(items, DIG[ty]), a, b, len(vec), b, "\n".join(Lr)))


def _write_text(ftype, be, ty, scale, ch, vec, k, a, b, digits):
    """whole-call replay (the difference needs the long call): expect-last = the native dump"""
    upto = min(len(vec), ((k // ch) + 1) * ch)
    L = ["open h0 s0 w fmt=%08x ch=%d sr=8000" % (fmt_word(ftype, be), ch), "cmd h0 6001 1 null"] + (["cmd h0 1015 1 null"] if scale else [])
    L += ["w h0 %s i %d %s" % (ty, upto, hexitems(vec[:upto], DIG[ty])), "close h0", "dump s0"]
    return ("# C20 (portable IEEE path through sf_write_%s, %s file, %s-endian): the file written with SFC_TEST_IEEE_FLOAT_REPLACE on is not the native representation\n"
            "# first differing sample: index %d of the call (caller item %0*x): portable path %s, native path of the same library %s\n"
            "# the item alone does not show it: the script holds the call up to that frame\nexpect-last hex=%s\n--- script\n%s\n"
            % (ty, ftype, "big" if be else "little", k, DIG[ty], vec[k], a[k * digits:(k + 1) * digits], b[k * digits:(k + 1) * digits], b[:upto * digits], "\n".join(L)))


def _read_text(ftype, be, ty, var, ch, pats, k, a, b, digits):
    d = DIG[ty]
    if var == "fimult":
        lo, hi = 0, len(pats)                         # the scale depends on the whole file
    else:
        lo = (k // ch) * ch
        hi = lo + ch
    store = hexitems(pats[lo:hi], digits)
    store = store if be else ieee.swap_items(store, digits)
    L = ["store s0 " + store, "open h0 s0 r fmt=%08x ch=%d sr=8000" % (fmt_word(ftype, be), ch), "cmd h0 6001 1 null"] + _var_cmds("h0", var) + ["r h0 %s i %d" % (ty, hi - lo)]
    return ("# C20 (portable IEEE path through sf_read_%s%s, %s file, %s-endian): the items delivered with SFC_TEST_IEEE_FLOAT_REPLACE on are not what the native path delivers\n"
            "# first differing item: index %d (stored value %0*x): portable path %s, native path of the same library %s\nexpect-last data=%s\n--- script\n%s\n"
            % (ty, " (%s)" % var if var else "", ftype, "big" if be else "little", k, digits, pats[k], a[k * d:(k + 1) * d], b[k * d:(k + 1) * d], b[lo * d:hi * d], "\n".join(L)))


def _died_block(ctx, script, lines, pats, digits, be, ch):
    """the open … r block during which the process died; with a store of 2 frames when that still dies"""
    ops = script.strip().split("\n")
    good = [l for l in lines if not l.startswith(("CRASH", "ABORT", "TIMEOUT"))]
    k = min(len(good), len(ops) - 1)
    a = k
    while a > 0 and not ops[a].startswith("open "):
        a -= 1
    e = a
    while e < len(ops) - 1 and not ops[e].startswith("close"):
        e += 1
    block = ops[a:e]
    small = hexitems(pats[:2 * ch], digits)
    small = small if be else ieee.swap_items(small, digits)
    cand = ["store s0 " + small] + [(" ".join(o.split()[:4] + [str(2 * ch)]) if o.startswith("r ") else o) for o in block]
    out, rc, err = ctx.script("\n".join(cand) + "\n")
    if rc != 0 or any(l.startswith(("CRASH", "ABORT")) for l in out):
        return "\n".join(cand) + "\n"
    return "\n".join([ops[0]] + block) + "\n"
