"""ALAC codec CORE campaign (C01; the hostile-packet stream also C03): the Lean model of src/ALAC/* (lean/SfModel/AlacBits.lean,
AlacCore.lean, AlacAg.lean, AlacDp.lean, AlacMatrix.lean, AlacDec.lean; `sfmodel alaccore dec | enc-escape`) against the library.

Streams
  dec      library-written CAF/ALAC files (all depths, 1..8 channels, contents from silence to noise, lengths around the packet
           boundaries): an independent chunk walker (vlib/alac.py FileView) cuts the file into kuki + packets; the model decodes
           the packets IN THE ORDER alac.c decodes them (the last counted packet at open, then 0, 1, …; its byte buffer and
           sample buffer persist from packet to packet) and must deliver what sf_readf_int delivers, and the frame count at open.
  enc      every library packet in which ALL elements are uncompressed (noise, very short packets): the model's escape encoder
           run on the frames that were written must give the library's bytes.
  hostile  the same files with packets replaced (bit flips in the element headers, truncation, spliced / random bytes, hand-made
           elements: DSE / FIL / CCE / END, partial frames, bytesShifted 3, numSamples >= 4096, kuki pb / mb / kb / maxRun
           extremes), rebuilt around the library's own desc / kuki chunks, read through sf_readf_int under ASan (forked children):
           memory errors / crashes / hangs are C03 violations with the file as replay; the delivered frames are compared with the model.
Property predicate (C01, on the implementation's own transcript): what was written (low 32 - depth bits clear) is read back bit exact.
When a correspondence stream fails the differing jobs are re-run on the model's OLD rules (`rule=old1..old4`, the code before the four
round-4 repairs): the report says which old rule the library now follows.
"""
import collections, concurrent.futures, shutil, tempfile

from . import kernels as K
from . import alac as A

FPB = 4096
M32 = 0xFFFFFFFF
CONTENTS = ["zero", "noise", "quiet", "ramp", "extremes", "sine", "mixture"]
LENGTHS = [1, 2, 3, 5, 17, 100, 777, 4095, 4096, 4097, 8192, 5000]
OLD = {"old1": "3f07ef6 (20-bit pair written in 16 bits)", "old2": "c268302 (24-bit pair: stale mix buffers >> 8)",
       "old3": "210ad67 (decoder: V sample of an escaped pair without << 16)", "old4": "5323441 (decoder: copyPredictorTo32 << 8)"}


def content(rng, kind, n, bits, ch):
    import math
    sh = 32 - bits
    if kind == "sine":
        amp = rng.choice([100, 3000, (1 << (bits - 1)) - 1, 1 << (bits - 2)])
        per = rng.choice([7.3, 50.0, 441.0])
        out = []
        for k in range(n):
            c = k % ch
            v = int(amp * math.sin(2 * math.pi * (k // ch) / per + 0.5 * c)) + (rng.randrange(-2, 3) if amp > 100 else 0)
            v = max(-(1 << (bits - 1)), min((1 << (bits - 1)) - 1, v))
            out.append((v << sh) & M32)
        return out
    return A.content(rng, kind, n, bits)


class Job:
    def __init__(self, name, bits, ch, n, cont, vals):
        self.name, self.bits, self.ch, self.n, self.cont, self.vals = name, bits, ch, n, cont, vals
        self.word = A.CAF | A.SUB[bits]
        self.fmtname = "caf-alac%d" % bits

    def script(self):
        L = ["open h0 s0 w fmt=%08x ch=%d sr=44100" % (self.word, self.ch),
             "w h0 s32 f %d %s" % (self.n, K.hex_items(self.vals, 8)),
             "close h0", "dump s0", "open h1 s0 r", "info h1", "r h1 s32 f %d" % (self.n + 16), "close h1"]
        self.lines = L
        return "\n".join(L) + "\n"


class HJob:
    """a hostile file: base file's chunks + replaced packets"""
    def __init__(self, name, base, kuki, packets, what):
        self.name, self.base, self.kuki, self.packets, self.what = name, base, kuki, packets, what
        self.bits, self.ch = kuki[5], kuki[9]
        self.fmtname = base.fmtname

    def file_bytes(self, fv):
        desc = fv.desc
        body = b"".join(bytes(A.ber(len(p))) for p in self.packets)
        pakt = (len(self.packets).to_bytes(8, "big") + (FPB * len(self.packets)).to_bytes(8, "big") + bytes(8) + body)
        pakt += bytes((4 - len(pakt) % 4) % 4)
        data = b"".join(self.packets)
        out = b"caff\x00\x01\x00\x00" + b"desc" + len(desc).to_bytes(8, "big") + desc
        out += b"kuki" + len(self.kuki).to_bytes(8, "big") + self.kuki
        out += b"pakt" + len(pakt).to_bytes(8, "big") + pakt
        out += b"data" + (len(data) + 4).to_bytes(8, "big") + bytes(4) + data
        return out

    def script(self, fv):
        fb = self.file_bytes(fv)
        self.flen = len(fb)
        total = FPB * len(self.packets) + 16
        L = ["store s0 %s" % fb.hex(), "open h1 s0 r", "info h1", "r h1 s32 f %d" % total, "close h1"]
        self.lines = L
        return "\n".join(L) + "\n"


def make_jobs(rng, njobs):
    jobs = []
    combos = [(b, c) for b in (16, 20, 24, 32) for c in range(1, 9)]
    rng.shuffle(combos)
    k = 0
    while len(jobs) < njobs:
        bits, ch = combos[k % len(combos)]
        n = LENGTHS[(k // 2) % len(LENGTHS)] if rng.random() < 0.8 else rng.randrange(1, 9000)
        if n * ch > 20000:
            n = rng.choice([1, 2, 100, FPB - 1, FPB, FPB + 1]) if n * ch <= 40000 and rng.random() < 0.3 else rng.choice([1, 2, 3, 100, 20000 // ch])
        cont = CONTENTS[k % len(CONTENTS)] if rng.random() < 0.75 else rng.choice(CONTENTS)
        vals = content(rng, cont, n * ch, bits, ch)
        jobs.append(Job("core%d-c%d-n%d-%s-%d" % (bits, ch, n, cont, k), bits, ch, n, cont, vals))
        k += 1
    return jobs


# ---------------------------------------------------------------------------------------------------
# bit helpers (independent of the model)
# ---------------------------------------------------------------------------------------------------

class BW:
    def __init__(self):
        self.bits = []

    def put(self, v, n):
        for i in range(n - 1, -1, -1):
            self.bits.append((v >> i) & 1)
        return self

    def bytes(self):
        b = self.bits + [0] * ((8 - len(self.bits) % 8) % 8)
        return bytes(int("".join(map(str, b[i:i + 8])), 2) for i in range(0, len(b), 8))


def getbits(p, off, n):
    v = 0
    for i in range(off, off + n):
        v = (v << 1) | ((p[i >> 3] >> (7 - (i & 7))) & 1 if (i >> 3) < len(p) else 0)
    return v


def escape_walk(p, bits, ch):
    """-> (all elements uncompressed?, number of audio elements); walks as long as the elements are uncompressed (fixed size)"""
    off, done, elems, n = 0, 0, 0, FPB
    while done < ch and off + 23 <= 8 * len(p):
        tag = getbits(p, off, 3)
        if tag not in (0, 1, 3):
            return False, elems
        hb = getbits(p, off + 19, 4)
        if not hb & 1:
            return False, elems
        off += 23
        if hb & 8:
            n = getbits(p, off, 32)
            off += 32
        k = 2 if tag == 1 else 1
        off += n * bits * k
        done += k
        elems += 1
    return done >= ch, elems


# ---------------------------------------------------------------------------------------------------
# hostile packets
# ---------------------------------------------------------------------------------------------------

def hostile_packets(rng, pk, bits, ch):
    """variants of the packet list `pk` (list of bytes): -> list of (what, packets)"""
    out = []
    if not pk:
        return out
    i = rng.randrange(len(pk))
    p = bytearray(pk[i])

    def rep(q):
        return pk[:i] + [bytes(q)] + pk[i + 1:]
    # 1. a flipped bit in the first 12 bytes (tags, header, partial-frame length, mixbits / mixres, modes, coefficient count)
    q = bytearray(p)
    b = rng.randrange(min(96, 8 * len(q)))
    q[b >> 3] ^= 0x80 >> (b & 7)
    out.append(("bit %d of packet %d flipped" % (b, i), rep(q)))
    # 2. a flipped bit anywhere
    q = bytearray(p)
    b = rng.randrange(8 * len(q))
    q[b >> 3] ^= 0x80 >> (b & 7)
    out.append(("bit %d of packet %d flipped" % (b, i), rep(q)))
    # 3. truncated
    if len(p) > 1:
        cut = rng.choice([1, 2, 3, len(p) // 2, len(p) - 1])
        out.append(("packet %d truncated to %d bytes" % (i, cut), rep(p[:max(cut, 1)])))
    # 4. a short packet in front of / behind a long one (stale bytes of the byte buffer, stale samples of the sample buffer)
    hand = handmade(rng, bits, ch)
    out.append(("hand-made packet (%s) replaces packet %d" % (hand[0], i), rep(hand[1])))
    out.append(("hand-made packet (%s) appended" % hand[0], pk + [hand[1]]))
    # 4b. a field of a compressed element's parameter block set to an extreme (first element of a packet that starts with a compressed element)
    for _ in range(2):
        j = rng.randrange(len(pk))
        q = bytearray(pk[j])
        if len(q) > 12 and not getbits(q, 22, 1):
            off = 23 + (32 if getbits(q, 19, 1) else 0)
            name, o, w, vals = rng.choice([("mixBits", 0, 8, [0, 1, 3, 31, 32, 255]), ("mixRes", 8, 8, [1, 2, 4, 127, 128, 255]), ("mode", 16, 4, [1, 2, 15]),
                                           ("denShift", 20, 4, [0, 1, 8, 15]), ("pbFactor", 24, 3, [0, 1, 7]), ("numActive", 27, 5, [0, 1, 2, 3, 4, 5, 8, 9, 16, 30, 31]),
                                           ("bytesShifted", 20 - off, 2, [0, 1, 2]), ("partial", 19 - off, 1, [0, 1])])
            v = rng.choice(vals)
            for t in range(w):
                b = off + o + t
                q[b >> 3] = (q[b >> 3] & ~(0x80 >> (b & 7))) | (((v >> (w - 1 - t)) & 1) << (7 - (b & 7)))
            out.append(("%s of packet %d set to %d" % (name, j, v), pk[:j] + [bytes(q)] + pk[j + 1:]))
    # 5. random tail
    q = bytearray(p[:rng.randrange(1, min(len(p), 40) + 1)]) + bytearray(rng.getrandbits(8) for _ in range(rng.choice([1, 5, 60, 300])))
    out.append(("packet %d: random bytes from offset %d" % (i, len(q)), rep(q)))
    return out


def handmade(rng, bits, ch):
    w = BW()
    kind = rng.choice(["end", "fil", "dse", "cce", "partial", "shift3", "toobig", "sce-run", "cpe-mono", "esc-shift", "unused", "fil-long", "dse-long"])
    n = rng.choice([0, 1, 2, 5, 60])

    def esc(tag, pairs, ns, flags=1, unused=0, nbits=bits):
        w.put(tag, 3).put(rng.randrange(16), 4).put(unused, 12).put(8 | flags, 4).put(ns, 32)
        for _ in range(min(ns, 70) * (2 if pairs else 1)):
            for _ in range(nbits):
                w.put(rng.getrandbits(1), 1)
    if kind == "end":
        w.put(7, 3)
    elif kind == "fil":
        c = rng.randrange(15)
        w.put(6, 3).put(c, 4)
        for _ in range(c):
            w.put(rng.getrandbits(8), 8)
        esc(0, False, n)
    elif kind == "fil-long":
        e = rng.choice([0, 1, 255])
        w.put(6, 3).put(15, 4).put(e, 8)
        for _ in range(rng.choice([0, 14 + e])):
            w.put(0xA5, 8)
        esc(0, False, n)
    elif kind == "dse":
        c = rng.randrange(20)
        w.put(4, 3).put(0, 4).put(rng.getrandbits(1), 1).put(c, 8)
        for _ in range(c + 1):
            w.put(0x5A, 8)
        esc(0, False, n)
    elif kind == "dse-long":
        w.put(4, 3).put(0, 4).put(1, 1).put(255, 8).put(rng.choice([0, 3, 255]), 8)
        for _ in range(rng.choice([0, 258])):
            w.put(0x5A, 8)
        esc(0, False, n)
    elif kind == "cce":
        esc(0, False, n)
        w.put(rng.choice([2, 5]), 3)
    elif kind == "partial":
        # elements with different lengths: the later, longer one leaves stale samples in the earlier channels
        esc(0, False, n)
        esc(3, False, n + 3)
        esc(1, True, max(n - 1, 0))
    elif kind == "shift3":
        esc(0, False, n, flags=7)
    elif kind == "toobig":
        esc(rng.choice([0, 1]), False, rng.choice([4096, 4097, 65536, 0xFFFFFFFF]))
    elif kind == "sce-run":
        for _ in range(ch + 1):
            esc(rng.choice([0, 3]), False, n)
    elif kind == "cpe-mono":
        esc(1, True, n)
        esc(1, True, n + 1)
        esc(1, True, n)
    elif kind == "esc-shift":
        # escape flag with bytesShifted 1 / 2: the mono element reads bits - 8 / bits - 16 wide samples, the pair full width
        bs = rng.choice([1, 2])
        t = rng.choice([0, 1])
        esc(t, t == 1, n, flags=1 | (bs << 1), nbits=bits if t == 1 else max(bits - 8 * bs, 0))
    else:
        esc(0, False, n, unused=rng.randrange(1, 4096))
    if rng.random() < 0.7:
        w.put(7, 3)
    return kind, w.bytes() or b"\xe0"


def kuki_variants(rng, kuki):
    out = []
    for _ in range(2):
        k = bytearray(kuki)
        which = rng.choice(["pb", "mb", "kb", "maxrun", "all"])
        if which in ("pb", "all"):
            k[6] = rng.choice([0, 1, 40, 255])
        if which in ("mb", "all"):
            k[7] = rng.choice([0, 1, 10, 255])
        if which in ("kb", "all"):
            k[8] = rng.choice([1, 2, 14, 16, 31])
        if which in ("maxrun", "all"):
            k[10], k[11] = rng.choice([(0, 0), (0, 1), (255, 255)])
        out.append(("kuki %s: pb=%d mb=%d kb=%d maxrun=%d" % (which, k[6], k[7], k[8], k[10] * 256 + k[11]), bytes(k)))
    return out


# ---------------------------------------------------------------------------------------------------

def batch(ctx, lst, op_timeout=20):
    dirs = [tempfile.mkdtemp(prefix="sfverif-alaccore-") for _ in range(3)]
    impl = {}
    try:
        with concurrent.futures.ThreadPoolExecutor(max_workers=3) as ex:
            for r in ex.map(lambda k: ctx.batch(lst[k::3], workers=1, clean=True, op_timeout=op_timeout, env={"TMPDIR": dirs[k]}), range(3)):
                impl.update(r)
    finally:
        for d in dirs:
            shutil.rmtree(d, ignore_errors=True)
    return impl


def run_model(ctx, sub, scripts, workers=3):
    """scripts: list of (name, text) -> name -> lines"""
    chunks = [c for c in (scripts[i::workers] for i in range(workers)) if c]

    def one(chunk):
        inp = "".join("== %s\n%s" % (n, t) for (n, t) in chunk)
        out = ctx.run_model(["alaccore", sub], inp, timeout=3600)
        res, cur = {}, None
        for line in out.split("\n"):
            if line.startswith("== "):
                cur = line[3:]
                res[cur] = []
            elif cur is not None and line:
                res[cur].append(line)
        return res
    out = {}
    if not chunks:
        return out
    with concurrent.futures.ThreadPoolExecutor(max_workers=len(chunks)) as ex:
        for r in ex.map(one, chunks):
            out.update(r)
    return out


def cfg_line(kuki, rule=None):
    return "cfg bits=%d ch=%d pb=%d mb=%d kb=%d maxrun=%d%s" % (kuki[5], kuki[9], kuki[6], kuki[7], kuki[8], kuki[10] * 256 + kuki[11], " rule=%s" % rule if rule else "")


def dec_session(kuki, packets, flen, rule=None):
    """the order alac.c decodes in: alac_reader_calc_frames counts the table entries (up to the first zero or the first one not below the
    file length), decodes the last counted packet; then the packets in order"""
    blocks = 0
    for p in packets:
        if len(p) == 0:
            break
        blocks += 1
        if not len(p) < flen:
            break
    L = [cfg_line(kuki, rule)]
    if blocks:
        L.append("pkt %s q" % packets[blocks - 1].hex())
    for p in packets:
        if len(p) == 0:
            break
        L.append("pkt %s" % p.hex())
    return "\n".join(L) + "\n", blocks


def expected_read(model_lines, blocks, ch):
    """-> (frames at open, hex of the items a sequential read delivers) from the model's session"""
    ml = [A.kv(l) for l in model_lines]
    if blocks == 0:
        return 0, ""
    frames = FPB * (blocks - 1) + int(ml[0].get("n", "0"))
    data = "".join(m.get("data", "") for m in ml[1:])
    return frames, data[:frames * ch * 8]


class Problem:
    def __init__(self, job, kind, cat, text, script=None, impl=None, model=None):
        self.job, self.kind, self.cat, self.text, self.script, self.impl, self.model = job, kind, cat, text, script, impl, model


def first_diff(a, b, w=8):
    n = min(len(a), len(b))
    return next((i // w for i in range(0, n, w) if a[i:i + w] != b[i:i + w]), n // w)


def campaign(ctx, njobs, hostile=True, rng=None):
    rng = rng or ctx.rng
    jobs = make_jobs(rng, njobs)
    hs = {j.name: j.script() for j in jobs}
    impl = batch(ctx, [(j.name, hs[j.name]) for j in jobs])
    stats = collections.Counter()
    probs = []
    views, dec_scripts, enc_lines, enc_meta, sessions = {}, [], [], [], {}
    for j in jobs:
        il = impl.get(j.name, [])
        stats["jobs"] += 1
        if any(l.startswith(("CRASH", "ABORT", "TIMEOUT")) for l in il) or len(il) != len(j.lines):
            probs.append(Problem(j, "pred", "crash", "the implementation died or stopped: %s" % (il[-1] if il else "no transcript"), hs[j.name]))
            continue
        fv = A.FileView(A.dump_hex(il))
        if not fv.ok:
            probs.append(Problem(j, "corr", "file", "the chunk walker finds no kuki / pakt / data in the library's file", hs[j.name]))
            continue
        views[j.name] = fv
        pk = fv.packet_bytes()
        text, blocks = dec_session(fv.kuki, pk, len(fv.fb))
        sessions[j.name] = (text, blocks)
        dec_scripts.append((j.name, text))
        # C01 predicate on the implementation's own transcript
        rd = A.kv(il[6])
        want = K.hex_items(j.vals, 8)
        got = rd.get("data", "")[:int(rd.get("ret", "0")) * j.ch * 8] if int(rd.get("ret", "0")) > 0 else ""
        stats["items_read_back"] += len(got) // 8
        if got != want:
            d = first_diff(got, want)
            probs.append(Problem(j, "pred", "roundtrip", "%d frames of %s written, %s frames read back; first difference at item %d (frame %d, channel %d): wrote %s, read %s"
                                 % (j.n, j.cont, rd.get("ret"), d, d // j.ch, d % j.ch, want[8 * d:8 * d + 8], got[8 * d:8 * d + 8] or "nothing"), hs[j.name]))
        # enc stream: the packets in which every element is uncompressed
        for k, p in enumerate(pk):
            stats["packets"] += 1
            allesc, _ = escape_walk(p, j.bits, j.ch)
            if allesc:
                fr = j.vals[k * FPB * j.ch:(k + 1) * FPB * j.ch]
                enc_lines.append("bits=%d ch=%d %s" % (j.bits, j.ch, K.hex_items(fr, 8)))
                enc_meta.append((j, k, p))
                stats["escape_packets"] += 1
                ctx.distinct.add("alaccore:esc:%d:%d" % (j.bits, j.ch))
            else:
                stats["compressed_packets"] += 1
                ctx.distinct.add("alaccore:comp:%d:%d" % (j.bits, j.ch))
        ctx.distinct.add("alaccore:content:%s" % j.cont)
    # hostile files
    hjobs = []
    if hostile:
        base = [j for j in jobs if j.name in views and len(views[j.name].fb) < 30000]
        rng.shuffle(base)
        for j in base[:max(4, njobs // 3)]:
            fv = views[j.name]
            pk = fv.packet_bytes()
            var = hostile_packets(rng, pk, j.bits, j.ch)
            for (what, kk) in kuki_variants(rng, fv.kuki):
                var.append((what, None, kk))
            for t, v in enumerate(var):
                what, packets = v[0], v[1]
                kuki = v[2] if len(v) > 2 else fv.kuki
                if packets is None:
                    packets = pk
                    if rng.random() < 0.5:
                        hp = hostile_packets(rng, pk, j.bits, j.ch)
                        what2, packets = hp[rng.randrange(len(hp))]
                        what += " + " + what2
                hj = HJob("%s-h%d" % (j.name, t), j, kuki, [p for p in packets if len(p)], what)
                hjobs.append(hj)
        hscripts = {h.name: h.script(views[h.base.name]) for h in hjobs}
        himpl = batch(ctx, [(h.name, hscripts[h.name]) for h in hjobs])
        for h in hjobs:
            text, blocks = dec_session(h.kuki, h.packets, h.flen)
            sessions[h.name] = (text, blocks)
            dec_scripts.append((h.name, text))
    model = run_model(ctx, "dec", dec_scripts)
    # encx stream: the model's full encoder (search, coefficient state across packets) on the frames written, every packet
    enc_scripts = []
    for j in jobs:
        if j.name in views:
            per = FPB * j.ch
            L = ["cfg bits=%d ch=%d" % (j.bits, j.ch)] + ["frames %s" % K.hex_items(j.vals[a:a + per], 8) for a in range(0, len(j.vals), per)]
            enc_scripts.append((j.name, "\n".join(L) + "\n"))
    encx = run_model(ctx, "enc", enc_scripts)
    for j in jobs:
        if j.name not in views:
            continue
        pk = views[j.name].packet_bytes()
        ml = encx.get(j.name, [])
        stats["encx_packets_compared"] += len(pk)
        stats["encx_bytes_compared"] += sum(map(len, pk))
        for k, p in enumerate(pk):
            m = ml[k] if k < len(ml) else ""
            if m != p.hex():
                d = first_diff(m, p.hex(), 2)
                probs.append(Problem(j, "corr", "encx", "packet %d of %d: the model's encoder (alac_encode with its search) and the implementation differ from byte %d (lengths %d / %d)"
                                     % (k, len(pk), d, len(m) // 2, len(p)), hs[j.name], p.hex()[2 * d:2 * d + 40], m[2 * d:2 * d + 40]))
                break
    enc_out = ctx.run_model(["alaccore", "enc-escape"], "\n".join(enc_lines) + "\n").split("\n") if enc_lines else []

    def compare(name, job, il, iinfo, ir, script, kind):
        ml = model.get(name, [])
        text, blocks = sessions[name]
        frames, data = expected_read(ml, blocks, job.ch)
        inf = A.kv(il[iinfo]) if len(il) > iinfo else {}
        stats[kind + "_sessions"] += 1
        stats[kind + "_packets_decoded"] += len(ml)
        if any("st=1 " in l for l in ml):
            stats[kind + "_unmodelled"] += 1
            return
        if "open=ok" not in il[iinfo - 1]:
            if frames != 0 or blocks != 0:
                # a file the library refuses to open: only a difference when the model sees frames
                stats[kind + "_open_refused"] += 1
            return
        if inf.get("frames") != str(frames):
            probs.append(Problem(job, "corr", kind, "frames at open: implementation %s, model %d (%d packets counted)" % (inf.get("frames"), frames, blocks), script, il[iinfo], ml[0] if ml else ""))
            return
        rd = A.kv(il[ir])
        ret = int(rd.get("ret", "0"))
        got = rd.get("data", "")[:max(ret, 0) * job.ch * 8]
        stats[kind + "_items_compared"] += len(got) // 8
        if got != data[:len(got)] or ret * job.ch * 8 != len(data[:frames * job.ch * 8]) and ret != frames:
            d = first_diff(got, data)
            probs.append(Problem(job, "corr", kind, "sequential read: implementation returned %d frames, model %d; first difference at item %d (frame %d, channel %d): implementation %s, model %s"
                                 % (ret, len(data) // (8 * job.ch), d, d // job.ch, d % job.ch, got[8 * d:8 * d + 8] or "-", data[8 * d:8 * d + 8] or "-"), script, got[8 * d:8 * d + 64], data[8 * d:8 * d + 64]))

    for j in jobs:
        if j.name in views:
            compare(j.name, j, impl[j.name], 5, 6, hs[j.name], "dec")
    for i, (j, k, p) in enumerate(enc_meta):
        m = enc_out[i] if i < len(enc_out) else ""
        stats["enc_bytes_compared"] += len(p)
        if m != p.hex():
            d = first_diff(m, p.hex(), 2)
            pr = Problem(j, "corr", "enc", "packet %d (all elements uncompressed): model and implementation differ from byte %d (lengths %d / %d)" % (k, d, len(m) // 2, len(p)), hs[j.name], p.hex()[2 * d:2 * d + 40], m[2 * d:2 * d + 40])
            pr.encline = enc_lines[i]
            pr.packet = p.hex()
            probs.append(pr)
    # file stream: the wrapper model Sf.Alac with the Lean codec core plugged in (`sfmodel alac script`, core=1): the WHOLE closed file
    # byte for byte, the frame count at re-open and the sequential read, no reference run in between
    fscripts = []
    for j in jobs:
        if j.name in views and j.n * j.ch <= 12000:
            fv = views[j.name]
            L = ["codec alac bits=%d ch=%d sr=44100 core=1" % (j.bits, j.ch), "w s32 f %d %s" % (j.n, K.hex_items(j.vals, 8)), "close",
                 "load len=%d pakt=%s data=%s" % (len(fv.fb), fv.pakt.hex(), fv.data.hex()), "r s32 f %d" % (j.n + 16)]
            fscripts.append((j.name, "\n".join(L) + "\n"))
    if fscripts:
        chunks = [c for c in (fscripts[i::3] for i in range(3)) if c]

        def fone(chunk):
            out = ctx.run_model(["alac", "script"], "".join("== %s\n%s" % (n, t) for (n, t) in chunk), timeout=3600)
            res, cur = {}, None
            for line in out.split("\n"):
                if line.startswith("== "):
                    cur = line[3:]
                    res[cur] = []
                elif cur is not None and line:
                    res[cur].append(line)
            return res
        fres = {}
        with concurrent.futures.ThreadPoolExecutor(max_workers=len(chunks)) as ex:
            for r in ex.map(fone, chunks):
                fres.update(r)
        for (name, _) in fscripts:
            j = next(x for x in jobs if x.name == name)
            il, ml, fv = impl[name], fres.get(name, []), views[name]
            stats["file_sessions"] += 1
            stats["file_bytes_compared"] += len(fv.fb)
            mfile = next((l[5:].split(" ")[0] for l in ml if l.startswith("file=")), "")
            if mfile != fv.hex:
                d = first_diff(mfile, fv.hex, 2)
                probs.append(Problem(j, "corr", "file", "the closed file of the wrapper model with the Lean codec core differs from the implementation's from byte %d (lengths %d / %d)"
                                     % (d, len(mfile) // 2, len(fv.fb)), hs[name], fv.hex[2 * d:2 * d + 40], mfile[2 * d:2 * d + 40]))
                continue
            mfr = next((A.kv(l).get("frames") for l in ml if l.startswith("frames=")), None)
            if mfr != A.kv(il[5]).get("frames"):
                probs.append(Problem(j, "corr", "file", "frames at re-open: implementation %s, wrapper model with the Lean codec core %s" % (A.kv(il[5]).get("frames"), mfr), hs[name], il[5], str(mfr)))
                continue
            mr, ir = A.kv(ml[-1]) if ml else {}, A.kv(il[6])
            n = max(int(ir.get("ret", "0")), 0) * j.ch * 8
            if mr.get("ret") != ir.get("ret") or mr.get("data", "")[:n] != ir.get("data", "")[:n]:
                probs.append(Problem(j, "corr", "file", "sequential read through the wrapper model with the Lean codec core: ret %s vs implementation %s (or the items differ)" % (mr.get("ret"), ir.get("ret")), hs[name]))
    for h in hjobs:
        il = himpl.get(h.name, [])
        stats["hostile_files"] += 1
        ctx.distinct.add("alaccore:hostile:" + (h.what.split(" (")[1].split(")")[0] if "hand-made" in h.what else h.what.split(" ")[0]))
        bad = next((l for l in il if l.startswith(("CRASH", "ABORT", "TIMEOUT"))), None)
        if bad or len(il) != len(h.lines):
            probs.append(Problem(h, "pred", "memory", "hostile packet (%s): %s" % (h.what, bad or "transcript stops after %d lines" % len(il)), hscripts[h.name]))
            continue
        compare(h.name, h, il, 2, 3, hscripts[h.name], "hostile")
    return jobs, hjobs, probs, stats, sessions, model


def old_rule_matches(ctx, probs, sessions):
    """which of the four old rules (if any) reproduces the implementation on the differing jobs"""
    notes = []
    encp = [p for p in probs if p.kind == "corr" and p.cat == "enc"][:6]
    for rule in ("old1", "old2"):
        cand = []
        for p in encp:
            for mr in (["0"] if rule == "old1" else ["0,0,0", "1,1,1", "2,2,2", "3,3,3", "4,4,4"]):
                cand.append((p, p.encline.replace(" ", " rule=%s mixres=%s " % (rule, mr), 1) if False else "rule=%s mixres=%s %s" % (rule, mr, p.encline)))
        if not cand:
            continue
        out = ctx.run_model(["alaccore", "enc-escape"], "\n".join(c[1] for c in cand) + "\n").split("\n")
        hit = {id(c[0]) for c, o in zip(cand, out) if o == c[0].packet}
        if hit:
            notes.append("%d of %d differing escape packets are what the encoder BEFORE %s writes (model rule %s)" % (len(hit), len(encp), OLD[rule], rule))
    decp = [p for p in probs if p.kind == "corr" and p.cat in ("dec", "hostile")][:6]
    for rule in ("old3", "old4"):
        sc = []
        for p in decp:
            text, blocks = sessions[p.job.name]
            sc.append((p.job.name, text.replace("\n", " rule=%s\n" % rule, 1)))
        if not sc:
            continue
        out = run_model(ctx, "dec", sc)
        hit = 0
        for p in decp:
            text, blocks = sessions[p.job.name]
            frames, data = expected_read(out.get(p.job.name, []), blocks, p.job.ch)
            if p.impl and data and p.impl[:16] in data and p.text.startswith("sequential"):
                d = int(p.text.split("first difference at item ")[1].split(" ")[0])
                if data[8 * d:8 * d + len(p.impl)] == p.impl:
                    hit += 1
        if hit:
            notes.append("%d of %d differing decodes are what the decoder BEFORE %s delivers (model rule %s)" % (hit, len(decp), OLD[rule], rule))
    return notes


def run(ctx, prop, njobs):
    """C01: all streams, roundtrip predicate. C03: the hostile stream's memory predicate (and its correspondence)."""
    jobs, hjobs, probs, stats, sessions, model = campaign(ctx, njobs)
    ctx.count(stats["packets"] + stats["hostile_packets_decoded"] + stats["dec_packets_decoded"])
    ctx.coverage["traces_validated_against_impl"] += stats["dec_sessions"] + stats["hostile_sessions"]
    cats = {"C01": {"roundtrip", "crash"}, "C03": {"memory", "crash"}}.get(prop, {"crash"})
    found = False
    reported = set()
    corr = [p for p in probs if p.kind == "corr"]
    notes = old_rule_matches(ctx, probs, sessions) if corr else []
    for p in probs:
        if p.kind != "pred" or p.cat not in cats:
            continue
        key = (p.job.fmtname, p.cat)
        if key in reported or len(reported) >= 3:
            continue
        reported.add(key)
        found = True
        j = p.job
        ctx.violation("%s-alaccore-%s-%s" % (prop.lower(), j.fmtname, p.cat),
                      "# %s violated on the implementation's own transcript (ALAC codec core campaign, predicate '%s')\n# %s, %d channel(s): %s\n# %s\n%s--- script\n%s"
                      % (prop, p.cat, j.fmtname, j.ch, j.name, p.text,
                         "".join("# correspondence with the Lean codec core also fails (%d differences): %s\n" % (len(corr), n) for n in notes), p.script))
    if corr and not found:
        p = corr[0]
        ctx.violation("%s-alaccore-correspondence-%s" % (prop.lower(), p.cat),
                      "# correspondence stream 'ALAC codec core (Sf.AlacCore) vs implementation' [%s] no longer agrees: %d differences (dec %d, enc %d, hostile %d)\n"
                      "# first: %s: %s\n# implementation: %s\n# model: %s\n%s# the %s predicate on the implementation's transcripts found no failing input\n--- script\n%s"
                      % (p.cat, len(corr), sum(q.cat == "dec" for q in corr), sum(q.cat in ("enc", "encx", "file") for q in corr), sum(q.cat == "hostile" for q in corr),
                         p.job.name, p.text[:500], (p.impl or "")[:200], (p.model or "")[:200], "".join("# %s\n" % n for n in notes), prop, p.script or ""), no_input=True)
        found = True
    note = {k: v for k, v in sorted(stats.items())}
    note["correspondence_differences"] = len(corr)
    note["old_rule_matches"] = notes
    note["predicate_failures_by_category"] = dict(collections.Counter(p.cat for p in probs if p.kind == "pred"))
    ctx.notes["alaccore"] = note
    if jobs:
        ctx.sample({"kind": "ALAC core job (%s)" % prop, "jobs": stats["jobs"], "hostile_files": stats["hostile_files"],
                    "example": next((j.script() for j in jobs if j.n * j.ch < 40), jobs[0].script()[:600]),
                    "example_hostile": next(("%s: %s" % (h.what, " ".join(p.hex() for p in h.packets)[:300]) for h in hjobs if sum(map(len, h.packets)) < 200), "")})
    ctx.coverage["rule"] = (ctx.coverage.get("rule", "") + " | alaccore: CAF x ALAC 16/20/24/32 x 1..8 channels x contents {zero, noise, quiet, ramp, extremes, sine, mixture} x lengths {1,2,3,5,17,100,777,4095..4097,5000,8192,random} "
                            "(sampled): every library packet decoded by the Lean codec core in the library's decode order vs sf_readf_int; all-escape packets re-encoded by the model vs the library's bytes; hostile variants "
                            "(bit flips, truncation, random tails, hand-made DSE / FIL / CCE / END / partial-frame / bytesShifted / numSamples elements, kuki pb / mb / kb / maxRun extremes) under ASan vs the model")
    return found
