"""C03, class "uninitialised memory": every container's minimal valid file cut short, opened and read under `valgrind --tool=memcheck`
on a PLAIN (no sanitizer) build of the tree under test.  AddressSanitizer cannot see a parser that works on memory nobody wrote (a stack
array a short read left untouched, an sscanf that matched nothing); memcheck reports the first USE of such a value (conditional jump,
address computation, system call argument) and the client harness/vg/vgopen.c pushes every SF_INFO field, the parse log, the samples and the
strings it gets through a branch, so that an indeterminate value that only travels to the caller is a use as well.

  quick     two seeded truncation points per container (one in the first 64 bytes, one in the first KiB) (the shortest seed file of each major format), hand-made NIST headers whose
            numbers do not scan, the SD2 resource fork cut at a seeded point
  thorough  every truncation point of those files (the first 1600 bytes and the last 64; every 16th in between), the SD2 fork at every byte

Outcome per file: valgrind error blocks between this file's marker line and the next one.  A report = C03 violated ("performs no invalid memory
access"; what comes out depends on stack garbage) with the file as the replay (`vg-replay` header; `bin/check C03 --replay f` re-runs it under
valgrind).  Known findings are matched by container and by the function named in the first stack frames (`signature`).
"""
import collections, glob, hashlib, os, re, shutil, subprocess, tempfile, time

from . import build

build.VARIANTS.setdefault("plain", "-O1 -g -fno-omit-frame-pointer -D%s=1" % build.GUARD)
CLIENT = os.path.join(build.HARNESS_DIR, "vg", "vgopen.c")
VG = ["valgrind", "-q", "--tool=memcheck", "--error-limit=no", "--num-callers=8", "--log-fd=2", "--child-silent-after-fork=yes"]
ERR_RE = re.compile(r"^==\d+== (Conditional jump|Use of uninitialised|Syscall param|Invalid (read|write|free)|Source and destination overlap|Argument .* of function)")


def have_valgrind():
    return shutil.which("valgrind") is not None


def ensure_client():
    bdir = build.ensure_lib("plain")
    h = hashlib.sha256(open(CLIENT, "rb").read()).hexdigest()[:12]
    exe = os.path.join(bdir, "vgopen-%s.bin" % h)
    with build.Lock(os.path.join(build.CACHE, "locks", "vg-%s.lock" % os.path.basename(bdir))):
        if not os.path.exists(exe):
            cmd = ["gcc", "-O1", "-g", "-fno-omit-frame-pointer", "-I", os.path.join(build.REPO, "include"), "-I", os.path.join(bdir, "include"), "-I", bdir,
                   "-o", exe + ".tmp", CLIENT, os.path.join(bdir, "libsndfile.a"), "-lm"] + (["-lgcov"] if build.COVERAGE else [])
            r = build.run(cmd, check=False)
            if r.returncode != 0:
                raise build.BuildError("vgopen does not compile against this tree", r.stdout)
            os.rename(exe + ".tmp", exe)
    return exe


def run_files(exe, paths, timeout=1200):
    """-> ({path: [error block, ...]}, {path: stdout line})"""
    if not paths:
        return {}, {}
    d = os.path.dirname(paths[0])
    lst = os.path.join(d, "list-%d.txt" % (hash(paths[0]) & 0xFFFFFF))
    with open(lst, "w") as f:
        f.write("\n".join(paths) + "\n")
    p = subprocess.run(VG + [exe, "-l", lst], capture_output=True, text=True, errors="replace", timeout=timeout)
    errs = collections.defaultdict(list)
    cur, block = None, None
    for line in p.stderr.split("\n"):
        if line.startswith("@@ "):
            cur = line.split(" ", 2)[2]
            block = None
            continue
        if ERR_RE.match(line):
            block = [line]
            if cur is not None:
                errs[cur].append(block)
        elif block is not None and line.startswith("=="):
            if len(block) < 10:
                block.append(line)
    outs = {}
    for line in p.stdout.split("\n"):
        m = re.match(r"^(\d+) (open=.*)$", line)
        if m and int(m.group(1)) < len(paths):
            outs[paths[int(m.group(1))]] = m.group(2)
    if p.returncode not in (0,) and not errs:
        errs[paths[-1]].append(["valgrind / vgopen ended with status %d: %s" % (p.returncode, p.stderr[-400:])])
    return errs, outs


def frames_of(block):
    return [re.sub(r"^==\d+==\s+(at|by) 0x[0-9A-F]+: ", "", l) for l in block[1:] if re.search(r"(at|by) 0x", l)]


NIST_EXT = "nist"


def nist_variants(base):
    """hand-made NIST headers: keys whose numbers do not scan leave the destination of sscanf as it was"""
    out = []
    hdr, rest = base[:1024], base[1024:]
    for key in (b"sample_count -i ", b"channel_count -i ", b"sample_rate -i ", b"sample_n_bytes -i ", b"sample_sig_bits -i ", b"sample_coding -s", b"sample_byte_format -s"):
        k = hdr.find(key)
        if k < 0:
            continue
        e = hdr.find(b"\n", k)
        for rep in (b"x", b"", b"-", b"+"):
            h2 = (hdr[:k + len(key)] + rep + hdr[e:] + bytes(1024))[:1024]
            out.append(("nist-%s-%s" % (key.split()[0].decode(), rep.decode() or "empty"), h2 + rest))
    out.append(("nist-magic-only", (b"NIST_1A\n" + bytes(1024))[:1024] + rest))
    out.append(("nist-no-nul", (hdr.rstrip(b"\0") + b" " * 1024)[:1024] + rest))
    return out


def points(n, quick, rng):
    if quick:       # one point inside the first 64 bytes (binary headers), one inside the first KiB (NIST / chunked headers)
        a = rng.randrange(min(n - 1, 13), max(min(n - 1, 13) + 1, min(n, 64)))
        b = rng.randrange(min(n - 1, 64), max(min(n - 1, 64) + 1, min(n, 1024)))
        return sorted({a, b})
    pts = set(range(0, min(n, 1600))) | set(range(max(0, n - 64), n)) | set(range(1600, n, 16))
    return sorted(pts)


def run(ctx, seeds, sd2_fork=None):
    """seeds: [(format word, channels, bytes)] of vlib/props/c03.py; returns True when a failing input was reported"""
    quick = ctx.tier == "quick"
    t0 = time.time()
    if not have_valgrind():
        ctx.notes["valgrind"] = {"available": False}
        ctx.assumptions.append("valgrind is not installed: the uninitialised-memory class of C03 was not exercised")
        return False
    exe = ensure_client()
    rng = ctx.rng
    tmp = tempfile.mkdtemp(prefix="vg-", dir=os.environ.get("SFVERIF_TMP", "/var/tmp"))
    stats = collections.Counter()
    found = False
    try:
        by_major = {}
        for (f, ch, data) in seeds:
            m = f & 0x0FFF0000
            codec = f & 0xFFFF
            key = (m, codec) if (not quick or codec in (0x70, 0x20, 0x40)) else (m, 0)     # quick: one file per container (+ ALAC, GSM, DWVW codecs)
            if key not in by_major or len(data) < len(by_major[key][2]):
                by_major[key] = (f, ch, data)
        cases = []          # (name, path, bytes, container)
        for (m, _), (f, ch, data) in sorted(by_major.items()):
            for n in points(len(data), quick, rng):
                cases.append(("trunc-%08x-%d" % (f, n), data[:n], "%02x" % (m >> 16)))
            cases.append(("whole-%08x" % f, data, "%02x" % (m >> 16)))
            if m == 0x070000 and len(data) >= 1024:
                for name, b in nist_variants(data):
                    cases.append((name, b, "07"))
        paths, meta = [], {}
        for k, (name, b, cont) in enumerate(cases):
            p = os.path.join(tmp, "f%05d.%s" % (k, "dat"))
            with open(p, "wb") as fh:
                fh.write(b)
            paths.append(p)
            meta[p] = (name, b, cont, None)
        if sd2_fork:
            audio = bytes((0x11, k & 0xFF)[k & 1] for k in range(32))
            for n in (points(len(sd2_fork), quick, rng) + [len(sd2_fork)]):
                p = os.path.join(tmp, "sd2_%05d.sd2" % n)
                with open(p, "wb") as fh:
                    fh.write(audio)
                with open(os.path.join(tmp, "._sd2_%05d.sd2" % n), "wb") as fh:
                    fh.write(sd2_fork[:n])
                paths.append(p)
                meta[p] = ("sd2-fork-trunc-%d" % n, audio, "16", sd2_fork[:n])
        stats["files"] = len(paths)
        nproc = 1 if len(paths) < 400 else 3
        chunks = [paths[i::nproc] for i in range(nproc)]
        import concurrent.futures
        errs, outs = {}, {}
        with concurrent.futures.ThreadPoolExecutor(max_workers=nproc) as ex:
            for e, o in ex.map(lambda c: run_files(exe, c), [c for c in chunks if c]):
                errs.update(e)
                outs.update(o)
        stats["answered"] = len(outs)
        stats["opened_ok"] = sum(1 for v in outs.values() if v.startswith("open=ok"))
        for p in paths:
            name, b, cont, fork = meta[p]
            ctx.distinct.add("vg:%s:%s" % (cont, (outs.get(p, "none").split(" ")[0])))
        from .core import load_known
        known = [e for e in load_known("C03") if e.get("class", "").startswith("valgrind:")]
        reported = set()
        for p in paths:
            if p not in errs:
                continue
            name, b, cont, fork = meta[p]
            block = errs[p][0]
            fr = frames_of(block)
            stats["files_with_reports"] += 1
            sig = (cont, fr[0].split(" ")[0] if fr else block[0])
            waived = False
            for e in known:
                cls = e["class"].split(":")          # valgrind:<container hex>:<function substring>
                if e.get("status") == "known" and len(cls) >= 3 and cls[1] == cont and any(cls[2] in x for x in fr[:6]):
                    ctx.known_finding(e)
                    stats["known_finding_hits"] += 1
                    waived = True
            if waived or sig in reported or len(reported) >= 3:
                continue
            reported.add(sig)
            found = True
            text = ("# C03: the library uses uninitialised / invalid memory while opening and reading this file (valgrind memcheck on a plain build)\n"
                    "# case %s (container %s, %d bytes); library answer: %s\n%s\nvg-replay 1\nvg-file %s\n%s--- script\nstore s0 %s\nopen h0 s0 r\n" % (
                        name, cont, len(b), outs.get(p, "?"), "\n".join("#   " + l for l in block), b.hex(),
                        ("vg-fork %s\n" % fork.hex()) if fork is not None else "", b.hex()))
            ctx.violation("vg-%s" % name, text)
        ctx.count(len(paths))
        ctx.coverage["traces_validated_against_impl"] += stats["answered"]
    finally:
        shutil.rmtree(tmp, ignore_errors=True)
    ctx.notes["valgrind"] = dict(stats, available=True, seconds=round(time.time() - t0, 1), containers=len({m for (m, _) in by_major}))
    return found


def replay(ctx, path):
    text = open(path).read()
    m = re.search(r"^vg-file ([0-9a-f]*)$", text, re.M)
    fk = re.search(r"^vg-fork ([0-9a-f]*)$", text, re.M)
    if not m or not have_valgrind():
        print("replay: no vg-file line / valgrind not installed")
        ctx.report(path, no_input=True)
        return
    exe = ensure_client()
    tmp = tempfile.mkdtemp(prefix="vgr-", dir=os.environ.get("SFVERIF_TMP", "/var/tmp"))
    try:
        p = os.path.join(tmp, "replay.sd2" if fk else "replay.dat")
        open(p, "wb").write(bytes.fromhex(m.group(1)))
        if fk:
            open(os.path.join(tmp, "._replay.sd2"), "wb").write(bytes.fromhex(fk.group(1)))
        errs, outs = run_files(exe, [p])
        print(outs.get(p, "no answer"))
        if errs.get(p):
            for l in errs[p][0]:
                print(l)
            print("replay: valgrind reports %d error(s): C03 violated" % len(errs[p]))
            ctx.report(path)
        else:
            print("replay: no valgrind report on this tree")
    finally:
        shutil.rmtree(tmp, ignore_errors=True)
