"""C19: commands with PROCESS-WIDE reach.  "Operations on one handle never influence another … results are likewise independent of
what the library did earlier in the same process."

The merge campaigns of vlib/props/c19.py open all their handles first and sprinkle a handful of commands; what they cannot show is a
command on handle A that changes process-wide state which only a handle OPENED AFTERWARDS reads (the capability probe behind
float32_init / double64_init, a lazily built table, a default taken from the last handle).  This campaign is the deterministic
product
      every SFC_* command of include/sndfile.h of the tree under test (three argument shapes each: (NULL, 1), (NULL, 0), a zeroed
      64-byte block) issued on a handle A of each codec family that has an init-time decision (FLOAT, DOUBLE, 16-bit PCM, u-law)
   x  the B sequence: six small workloads, each OPENED AFTER A's command, on their own stores -- FLOAT / DOUBLE files in both byte
      orders written and read with all four caller types and with the values on which code paths differ (+-Inf, NaN, -0.0,
      subnormals, out-of-range), 16-bit PCM through float (normalisation, clipping), u-law, IMA ADPCM;
   once with A still open while B runs and once with A closed before B is opened (the argument shapes in the other order: a switch
   is left ON in one run and OFF in the other).
Predicate: every line of B's transcript (return values, data, error numbers, bytes of the closed files) equals the line of the run
that never had a handle A.  A difference is a VIOLATION whose replay is a C19 replay (`c19-compare`, solo = the B sequence alone).
Model: lean/SfModel/CapsWorld.lean (the capability static with the rule of the code and the caching rule), theorems
lean/SfProps/C19Caps.lean."""
import os, re, struct, collections

from . import worldcamp as WC

INF32, NINF32, NAN32, NZERO32, SUB32, BIG32 = 0x7F800000, 0xFF800000, 0x7FC00000, 0x80000000, 0x00000001, 0x47C35000
INF64, NAN64, NZERO64, SUB64 = 0x7FF0000000000000, 0x7FF8000000000000, 0x8000000000000000, 0x0000000000000001


def f32(x):
    return struct.unpack(">I", struct.pack(">f", x))[0]


def f64(x):
    return struct.unpack(">Q", struct.pack(">d", x))[0]


def commands(ctx):
    """(name, id) of every SFC_* enumerator of the tree under test"""
    repo = os.environ.get("SFVERIF_REPO", "/repo")
    try:
        hdr = open(os.path.join(repo, "include", "sndfile.h")).read()
    except OSError:
        return []
    out = []
    for m in re.finditer(r"\b(SFC_\w+)\s*=\s*(0x[0-9A-Fa-f]+)", hdr):
        out.append((m.group(1), int(m.group(2), 16)))
    return out


F32_VALS = [f32(0.25), INF32, f32(-0.5), NAN32, NZERO32, SUB32, NINF32, BIG32, f32(1.0), f32(-1.0), f32(3.0517578125e-05), f32(0.999)]
F64_VALS = [f64(0.25), INF64, f64(-0.5), NAN64, NZERO64, SUB64, f64(1e300), f64(40000.5), f64(1.0), f64(-1.0), f64(1e-310), f64(0.999)]
S16_VALS = [0, 1, 0xFFFF, 0x7FFF, 0x8000, 0x1234, 0xEDCC, 0x0100, 0xFF00, 7, 0xFFF9, 300]


def b_sequence():
    """the workloads opened after A's command: handles h0..h5 on stores s0..s5"""
    def hx(vals, d):
        return "".join("%0*x" % (d, v) for v in vals)
    L = []
    jobs = [(0, 0x00030006, "f32", F32_VALS, 8),       # AU float (big-endian)
            (1, 0x10010006, "f32", F32_VALS, 8),       # WAV float (little-endian)
            (2, 0x00010007, "f64", F64_VALS, 16),      # WAV double
            (3, 0x20020007, "f64", F64_VALS, 16),      # AIFF double, big-endian
            (4, 0x00010002, "f32", F32_VALS[:1] + F32_VALS[2:3] + F32_VALS[7:], 8),   # 16-bit PCM written from floats (finite values)
            (5, 0x00030001, "s16", S16_VALS, 4)]       # AU u-law
    for (k, fmt, ty, vals, d) in jobs:
        h, s = "h%d" % k, "s%d" % k
        L += ["open %s %s w fmt=%08x ch=1 sr=8000" % (h, s, fmt),
              "w %s %s i %d %s" % (h, ty, len(vals), hx(vals, d)),
              "w %s s16 i %d %s" % (h, len(S16_VALS), hx(S16_VALS, 4)),
              "close %s" % h, "dump %s" % s,
              "open %s %s r" % (h, s),
              "r %s %s i %d" % (h, ty, len(vals)), "seek %s 0 0" % h, "r %s s16 i 5" % h, "r %s s32 i 4" % h, "r %s f64 i 30" % h, "close %s" % h]
    # a block codec whose init builds its state from scratch
    L += ["open h6 s6 w fmt=00010012 ch=1 sr=8000", "w h6 s16 i %d %s" % (len(S16_VALS), hx(S16_VALS, 4)), "close h6", "dump s6",
          "open h6 s6 r", "r h6 s16 i 20", "close h6"]
    return L


A_FORMATS = [("float", 0x00010006, "f32", [f32(0.5), f32(-0.25)]), ("double", 0x00010007, "f64", [f64(0.5), f64(-0.25)]),
             ("pcm16", 0x00010002, "s16", [1, 2]), ("ulaw", 0x00030001, "s16", [1, 2])]


def a_prefix(fmt, ty, vals, cid, rev=False):
    """the three argument shapes in one of two orders: a switch command ends ON in one order and OFF in the other (both differ from
    one of the two possible defaults)"""
    d = {"s16": 4, "f32": 8, "f64": 16}[ty]
    shapes = ["cmd h8 %x 1 null" % cid, "cmd h8 %x 0 null" % cid, "cmd h8 %x 64 zero" % cid]
    if rev:
        shapes = [shapes[2], shapes[0], shapes[1]]
    return ["open h8 s7 w fmt=%08x ch=1 sr=8000" % fmt] + shapes + ["w h8 %s i %d %s" % (ty, len(vals), "".join("%0*x" % (d, v) for v in vals))]


def run(ctx, env):
    """returns (failures as dicts for vlib/props/c19.py's report, stats)"""
    cmds = commands(ctx)
    B = b_sequence()
    scripts = [("cr-solo", "\n".join(B) + "\n")]
    meta = {}
    for (cname, cid) in cmds:
        for (aname, fmt, ty, vals) in A_FORMATS:
            for closed in (False, True):
                pre = a_prefix(fmt, ty, vals, cid, rev=closed)
                n = "cr-%s-%s-%s" % (cname, aname, "closed" if closed else "open")
                full = pre + (["close h8"] if closed else []) + B + ([] if closed else ["close h8"])
                owners = [7] * (len(pre) + (1 if closed else 0)) + [0] * len(B) + ([] if closed else [7])
                scripts.append((n, "\n".join(full) + "\n"))
                meta[n] = (cname, cid, aname, full, owners)
    out = ctx.batch(scripts, clean=True, env=env, workers=4, op_timeout=20)
    solo = out.get("cr-solo", [])
    stats = collections.Counter()
    stats["commands"] = len(cmds)
    stats["b_lines"] = len(B)
    fails = []
    if len(solo) != len(B) or any(l.startswith(("CRASH", "ABORT", "TIMEOUT")) for l in solo):
        stats["solo_run_incomplete"] = 1
        ctx.notes["command_reach"] = dict(stats)
        return [], stats
    so = WC.trim_reads(B, solo)
    for n, (cname, cid, aname, full, owners) in meta.items():
        o = out.get(n, [])
        stats["scripts"] += 1
        o = o + ["<missing>"] * (len(full) - len(o))
        mine = WC.trim_reads(B, [l for l, ow in zip(o, owners) if ow == 0])
        stats["comparisons"] += len(B)
        ctx.distinct.add("cmdreach:%s" % cname)
        d = next((k for k in range(len(B)) if k >= len(mine) or mine[k] != so[k]), None)
        if d is not None:
            fails.append(dict(name=n, cname=cname, cid=cid, aname=aname, full=full, owners=owners, k=d, solo_line=so[d], got=mine[d] if d < len(mine) else "<missing>"))
    stats["failures"] = len(fails)
    ctx.notes["command_reach"] = dict(stats, a_formats=[a[0] for a in A_FORMATS],
                                      rule="every SFC_* enumerator of include/sndfile.h x 4 handle-A formats x (A open | A closed) before the B sequence is opened; B = 7 workloads, all lines compared with the run without A")
    return fails, stats


def report(ctx, fails, replay_text):
    """at most three VIOLATION lines (one per command)"""
    seen = set()
    B = b_sequence()
    for f in fails:
        if f["cname"] in seen or len(seen) >= 3:
            continue
        seen.add(f["cname"])
        # shrink: B's workload that holds the failing line only
        ctx.violation("c19-cmdreach-%s-%s" % (f["cname"], f["aname"]),
                      replay_text("C19 violated: a command on one handle changes what a handle opened AFTERWARDS does",
                                  "%s (0x%x) on a %s handle, then the workloads are opened; line %d `%s`: alone it answers `%s`, after the command `%s`"
                                  % (f["cname"], f["cid"], f["aname"], f["k"], B[f["k"]][:70], f["solo_line"][:160], f["got"][:160]),
                                  f["name"], B, f["full"], f["owners"], 0))
    return bool(fails)
