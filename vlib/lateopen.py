"""Late-failing opens (C16, C09): malformed inputs that are rejected AFTER the header parser has allocated.

The input class the truncation / random-mutation campaigns lacked.  A rejected file leaks exactly when a `return error`
is taken between an allocation and the point where the owner that releases it becomes reachable from psf_close
(container_close / codec_close installed, pointer stored in SF_PRIVATE).  So the campaign is built from two lists:

 * SEEDS: the library's own output with EACH allocating piece of metadata ALONE (strings, PEAK, bext, cart, cue, instrument,
   channel map, custom chunk), all of them together, and none -- for every container that carries metadata, plus one file per
   (container, codec) for the codec-private allocations (pakt/kuki of ALAC, GSM / G72x / ADPCM / DWVW / SDS / XI / PAF24 / VOC
   state).  One item at a time matters: writers drop chunks in the presence of others (AIFF writes MARK only when there are cues
   and NO instrument), so the everything-at-once seed of the older campaigns never contained a MARK chunk.
 * DAMAGE applied behind every allocating chunk k of every seed: the file cut right behind chunk k and inside the next chunk
   header; the format chunk (fmt / COMM / desc) moved -- or a second, damaged copy placed -- behind chunk k with channels 0,
   channels 65535, an unknown codec tag, zero sample size / block align; every 16-bit field of the format chunk zeroed and
   saturated at its own place and behind the last metadata chunk; the audio chunk renamed (missing data chunk), with a lying
   size, or cut short (truncated codec init).  Containers without chunks: every header byte truncated at / zeroed / saturated.

Every variant is one complete open attempt (`ledger tryopen`, routes path / fd close_desc 1 / fd close_desc 0 / virtual, modes
r and rw) inside a `ledger begin` .. `ledger end` bracket: heap blocks, LeakSanitizer, descriptors, TMPDIR.  `prefix_scenarios`
are the successful counterparts: the seed cut down to its first k metadata chunks plus the audio chunk, opened with `ledger peek`
so that owner mask and live blocks after every parsed chunk are compared with the ledger model (events predicted from the bytes).
"""
import re, struct

from . import formats, c03fuzz

ITEMS = ["str", "peak", "bext", "cart", "cue", "inst", "chanmap", "chunk"]
RICH_MAJORS = (0x01, 0x13, 0x22, 0x02, 0x18)
GROUP = 25
ROUTES = ["path", "fd1", "vio", "fd0"]
END_RE = re.compile(r"balance=-?\d+ blocks=0 total=-?\d+ lsan=0 fds=0 tmp=0")


def hx(b):
    return bytes(b).hex()


def item_lines(item, ch):
    if item == "str":
        return ["setstr h0 %d %s" % (t, hx(b"str-%02x-value" % t)) for t in c03fuzz.STR_TYPES]
    if item == "peak":
        return ["cmd h0 1050 1 null"]
    if item == "bext":
        return ["cmd h0 10f1 %d %s" % (c03fuzz.SIZEOF_BEXT, hx(c03fuzz.bext_blob()))]
    if item == "cart":
        return ["cmd h0 1400 %d %s" % (c03fuzz.SIZEOF_CART, hx(c03fuzz.cart_blob()))]
    if item == "cue":
        return ["cmd h0 10cf %d %s" % (c03fuzz.SIZEOF_CUES, hx(c03fuzz.cues_blob()))]
    if item == "inst":
        return ["cmd h0 10d1 %d %s" % (c03fuzz.SIZEOF_INST, hx(c03fuzz.inst_blob()))]
    if item == "chanmap":
        return ["cmd h0 1101 %d %s" % (4 * ch, hx(struct.pack("<%di" % ch, *[(k % 2) + 3 for k in range(ch)])))]      # left, right
    if item == "chunk":
        return ["setchunk h0 %s %s" % (hx(b"Cust"), hx(b"custom chunk payload 0123456789"))]
    return []


def seed_script(fmt, ch, items, nframes=24):
    lines = ["open h0 s0 w fmt=%08x ch=%d sr=8000" % (fmt, ch)]
    for it in items:
        lines += item_lines(it, ch)
    vals = [((k * 2654435761) >> 7) & 0xFFFF for k in range(nframes * ch)]
    lines.append("w h0 s16 i %d %s" % (len(vals), "".join("%04x" % v for v in vals)))
    lines.append("close h0")
    lines.append("dump s0")
    return "\n".join(lines) + "\n"


class Seed:
    def __init__(self, f, ch, items, tag):
        self.f, self.ch, self.items, self.tag = f, ch, items, tag
        self.name = "%s-%s" % (f.name, tag)
        self.data = None


def seed_plan(fmts):
    """one Seed per (major, codec) with no metadata and with all of it; for the metadata-carrying containers (16-bit PCM and float,
    both endiannesses where the container has them) every item alone and all-but-instrument / all-but-cue"""
    plan, seen = [], set()
    for f in fmts:
        if f.major == 0x16:
            continue
        key = (f.major, f.codec)
        if key not in seen:
            seen.add(key)
            ch = 2 if f.maxch >= 2 else 1
            plan.append(Seed(f, ch, [], "plain"))
            plan.append(Seed(f, ch, ITEMS, "all"))
        if f.major in RICH_MAJORS and f.codec in (0x02, 0x06) and (f.major, f.codec, f.endian) not in seen:
            seen.add((f.major, f.codec, f.endian))
            ch = 2
            for it in ITEMS:
                plan.append(Seed(f, ch, [it], it))
            plan.append(Seed(f, ch, [i for i in ITEMS if i != "inst"], "noinst"))
            plan.append(Seed(f, ch, [i for i in ITEMS if i != "cue"], "nocue"))
            plan.append(Seed(f, ch, ["cue", "inst"], "cue+inst"))
    return plan


def make_seeds(ctx, fmts, env):
    plan = seed_plan(fmts)
    res = ctx.batch([(s.name, seed_script(s.f.word, s.ch, s.items)) for s in plan], env=env)
    out, seen = [], set()
    for s in plan:
        d = [l for l in res.get(s.name, []) if l.startswith("len=") and "hex=" in l]
        if not d:
            continue
        data = bytes.fromhex(d[-1].split("hex=")[1].strip())
        if not data or (s.f.major, data) in seen:
            continue            # the container ignored the item: same bytes as a seed we already have
        seen.add((s.f.major, data))
        s.data = data
        out.append(s)
    return out


# ---- chunk anatomy -------------------------------------------------------------------------------------------------------
def anatomy(data):
    """(kind, header_len, [(start, end, id)], size_of_chunk_header) for the IFF family and CAF; None for the rest"""
    wk = c03fuzz.walk_chunks(data)
    if not wk or not wk[1]:
        return None
    hl, cl = wk
    caf = data[:4] == b"caff"
    return ("caf" if caf else "iff", hl, [(a, e, data[a:a + 4]) for (a, e) in cl], 12 if caf else 8)


FORMAT_IDS = (b"fmt ", b"COMM", b"desc")
AUDIO_IDS = (b"data", b"SSND")


def fmt_damage(data, chunk, csz):
    """damaged copies of the format chunk: [(tag, bytes)]"""
    a, e, cid = chunk
    body = bytearray(data[a:e])
    out = []

    def put(tag, off, fmtc, val):
        b = bytearray(body)
        if csz + off + struct.calcsize(fmtc) <= len(b):
            struct.pack_into(fmtc, b, csz + off, val)
            out.append((tag, bytes(b)))

    if cid == b"fmt ":
        le = data[:4] != b"RIFX"
        E = "<" if le else ">"
        put("ch0", 2, E + "H", 0)
        put("chmax", 2, E + "H", 0xFFFF)
        put("tag?", 0, E + "H", 0x7A7A)
        put("align0", 12, E + "H", 0)
        put("bits0", 14, E + "H", 0)
        put("rate0", 4, E + "I", 0)
    elif cid == b"COMM":
        put("ch0", 0, ">H", 0)
        put("chmax", 0, ">H", 0xFFFF)
        put("bits0", 6, ">H", 0)
        put("bits99", 6, ">H", 99)
        put("enc?", 18, ">I", 0x7A7A7A7A)
        put("frames-1", 2, ">I", 0xFFFFFFFF)
    elif cid == b"desc":
        put("ch0", 24, ">I", 0)
        put("chmax", 24, ">I", 0xFFFFFFFF)
        put("fmt?", 8, ">I", 0x7A7A7A7A)
        put("bits0", 28, ">I", 0)
        put("bpp0", 16, ">I", 0)
        put("rate0", 0, ">Q", 0)
    return out


def field_sweep(body, csz, limit=48):
    """every 16-bit field of a chunk body zeroed and saturated (the fields the parser validates after it has read the chunk)"""
    out = []
    for off in range(csz, min(len(body) - 1, csz + limit), 2):
        for v, nm in ((0, "z"), (0xFFFF, "f")):
            b = bytearray(body)
            b[off:off + 2] = struct.pack(">H", v)
            if bytes(b) != bytes(body):
                out.append(("f16@%d%s" % (off - csz, nm), bytes(b)))
    return out


def chunked_variants(data, an):
    kind, hl, chunks, csz = an
    fi = next((i for i, c in enumerate(chunks) if c[2] in FORMAT_IDS), None)
    ai = next((i for i, c in enumerate(chunks) if c[2] in AUDIO_IDS), None)
    out = []
    last_meta = (ai - 1) if ai is not None and ai > 0 else len(chunks) - 1
    for k, (a, e, cid) in enumerate(chunks):
        if ai is not None and k >= ai:
            break
        out.append(("cut-after-%d-%s" % (k, cid.decode("latin1").strip()), data[:e]))
        out.append(("cut-in-next-%d" % k, data[:min(len(data), e + csz + 1)]))
        out.append(("cut-in-%d" % k, data[:a + csz + max(1, (e - a - csz) // 2)]))
        if fi is not None:
            for (tag, dmg) in fmt_damage(data, chunks[fi], csz):
                if tag in ("ch0", "chmax", "tag?", "enc?", "fmt?", "bits0") and k != fi:
                    fa, fe, _ = chunks[fi]
                    if fi < k:
                        moved = data[:fa] + data[fe:e] + dmg + data[e:]
                    else:
                        moved = data[:e] + dmg + data[e:fa] + data[fe:]
                    out.append(("move-%s-behind-%d" % (tag, k), moved))
                    out.append(("second-%s-behind-%d" % (tag, k), data[:e] + dmg + data[e:]))
    if fi is not None:
        fa, fe, _ = chunks[fi]
        le = chunks[last_meta][1]
        for (tag, dmg) in fmt_damage(data, chunks[fi], csz) + field_sweep(data[fa:fe], csz):
            out.append(("fmt-%s" % tag, data[:fa] + dmg + data[fe:]))
            if last_meta != fi and fi < last_meta:
                out.append(("fmtlate-%s" % tag, data[:fa] + data[fe:le] + dmg + data[le:]))
    if ai is not None:
        a, e, cid = chunks[ai]
        b = bytearray(data); b[a:a + 4] = b"dat_"
        out.append(("audio-renamed", bytes(b)))
        for v, nm in ((0, "0"), (0xFFFFFFFF, "max"), (0x7FFFFFFF, "half"), (1, "1")):
            b = bytearray(data)
            if kind == "caf":
                struct.pack_into(">q", b, a + 4, v if v < 0x80000000 else -1)
            else:
                struct.pack_into(">I" if data[:4] in (b"FORM", b"RIFX") else "<I", b, a + 4, v)
            out.append(("audio-size-%s" % nm, bytes(b)))
        out.append(("audio-cut-hdr", data[:a + csz]))
        out.append(("audio-cut-1", data[:min(len(data), a + csz + 1)]))
        out.append(("audio-cut-half", data[:a + csz + (e - a - csz) // 2]))
        out.append(("audio-gone", data[:a] + data[e:]))
        # the chunks behind the audio (PEAK / strings / pakt at the end): cut and damaged sizes
        for k in range(ai + 1, len(chunks)):
            ta, te, tid = chunks[k]
            out.append(("tail-cut-%d" % k, data[:ta + csz + max(0, (te - ta - csz) // 2)]))
            b = bytearray(data)
            if kind == "caf":
                struct.pack_into(">q", b, ta + 4, 0x7FFFFFFF)
            else:
                struct.pack_into(">I" if data[:4] in (b"FORM", b"RIFX") else "<I", b, ta + 4, 0x7FFFFFFF)
            out.append(("tail-size-%d" % k, bytes(b)))
    # every other chunk: sweep of its leading fields (counts, sizes, versions) -- validated after the allocation they size
    for k, (a, e, cid) in enumerate(chunks):
        if k == fi or (ai is not None and k == ai):
            continue
        for (tag, dmg) in field_sweep(data[a:e], csz, limit=12):
            out.append(("%s-%s" % (cid.decode("latin1").strip(), tag), data[:a] + dmg + data[e:]))
    return out


def flat_variants(data):
    hl = min(len(data), 2100)
    step = max(1, hl // 260)
    out = []
    for off in range(0, hl, step):
        out.append(("trunc%d" % off, data[:off]))
        for v, nm in ((0, "z"), (0xFF, "f")):
            if data[off] != v:
                b = bytearray(data)
                b[off] = v
                out.append(("b@%d%s" % (off, nm), bytes(b)))
    return out


def variants(seed):
    an = anatomy(seed.data)
    vs = chunked_variants(seed.data, an) if an else flat_variants(seed.data)
    seen, out = set(), []
    for (tag, blob) in vs:
        if blob in seen or blob == seed.data:
            continue
        seen.add(blob)
        out.append((tag, blob))
    return out


# ---- cases and judging ---------------------------------------------------------------------------------------------------
class Case:
    def __init__(self, name, kind, pre, op):
        self.name, self.kind, self.pre, self.op = name, kind, pre, op

    def lines(self):
        return self.pre + [self.op]


def cases(ctx, seeds, thin=1):
    """one open attempt per variant; routes and modes rotate (counter k is global so that a variant class is not tied to one route)"""
    out = []
    k = ctx.seed            # a different route assignment per seed of the run
    full_major = set()
    for si, s in enumerate(seeds):
        if s.f.major == 0x04 and s.f.codec not in (0x02, 0x20, 0x21, 0x22, 0x40):
            continue            # a headerless file is accepted whatever its bytes: only the codecs with an init of their own
        vs = variants(s)
        # the quick tier runs every variant of the first seed of each container and of the one-item-at-a-time 16-bit seeds; the other
        # seeds (further codecs, float, the other endianness) contribute every `thin`-th variant, the offset moving with the run's seed
        first = s.f.major not in full_major
        full_major.add(s.f.major)
        if thin > 1 and not first and not (s.f.codec == 0x02 and s.tag not in ("plain",) and s.f.endian in (0, formats.LE) and anatomy(s.data)):
            vs = vs[((ctx.seed + si) % thin)::thin]
        for (tag, blob) in vs:
            route = ROUTES[k % 4]
            mode = "rw" if (k % 9 == 8 and route != "fd0") else "r"
            k += 1
            fmt = s.f.word if (s.f.major == 4 or mode == "rw") else 0
            out.append(Case("late-%s-%s-%s-%s" % (s.name, tag, mode, route), "late:%s:%s" % (formats.MAJOR_NAME.get(s.f.major, "?"), s.tag),
                            ["store s1 %s" % hx(blob)],
                            "ledger tryopen s1 %s fmt=%08x ch=%d sr=8000 route=%s ext=x" % (mode, fmt, s.ch, route)))
    return out


def bracket(cs):
    lines, idx = ["ledger begin"], []
    for c in cs:
        lines += c.pre
        lines.append(c.op)
        idx.append(len(lines) - 1)
    lines.append("ledger end")
    return "\n".join(lines) + "\n", idx


def judge_answer(line):
    if line is None:
        return ["no answer (the attempt did not return)"]
    kv = dict(re.findall(r"(\w+)=([^ ]*)", line))
    why = []
    if line.startswith("open=NULL"):
        if kv.get("err") in (None, "0"):
            why.append("sf_open returned NULL but sf_error (NULL) is 0")
        if kv.get("msglen") in (None, "0"):
            why.append("sf_open returned NULL but sf_strerror (NULL) is empty")
    elif line.startswith("open=ok"):
        if kv.get("close") != "0":
            why.append("the open succeeded and sf_close returned %s" % kv.get("close"))
    else:
        why.append("unexpected answer: " + line[:80])
    if kv.get("fdleft") not in (None, "0"):
        why.append("the descriptor handed over with close_desc=1 is still open after the call")
    return why


def run_cases(ctx, cs, env, keep, waive=None):
    """-> (failures, stats): failures = [(case, reasons, answer line, end line, script text)] found by re-running every case of a
    suspect bracket alone"""
    groups = [cs[i:i + GROUP] for i in range(0, len(cs), GROUP)]

    def run(gs, pfx):
        scripts, meta = [], {}
        for gi, g in enumerate(gs):
            text, idx = bracket(g)
            scripts.append(("%s%d" % (pfx, gi), text))
            meta["%s%d" % (pfx, gi)] = (g, idx, text)
        res = ctx.batch(scripts, env=env, op_timeout=20)
        return {k: ([l for l in res.get(k, []) if l.startswith(keep)], meta[k]) for k in meta}

    stats = {"null": 0, "ok": 0, "cases": len(cs), "brackets": len(groups), "suspect_brackets": 0}
    suspects = []
    for key, (t, (g, idx, text)) in run(groups, "L").items():
        n = len(text.strip().split("\n"))
        if len(t) != n or not END_RE.match(t[-1]) or any(judge_answer(t[i]) for i in idx):
            suspects.append(g)
        else:
            for i in idx:
                stats["null" if t[i].startswith("open=NULL") else "ok"] += 1
    stats["suspect_brackets"] = len(suspects)
    fails = []
    singles = [[c] for g in suspects for c in g]
    if singles:
        for key, (t, (g, idx, text)) in run(singles, "S").items():
            c = g[0]
            n = len(text.strip().split("\n"))
            ans = t[idx[0]] if idx[0] < len(t) else None
            why = judge_answer(ans)
            crash = [l for l in t if l.startswith(("CRASH", "ABORT", "TIMEOUT"))]
            end_ok = len(t) == n and bool(END_RE.match(t[-1]))
            if ans and not why and end_ok:
                stats["null" if ans.startswith("open=NULL") else "ok"] += 1
                continue
            if crash and waive is not None and waive(ctx, "\n".join(c.lines()) + "\n"):
                stats["waived"] = stats.get("waived", 0) + 1
                continue
            if crash:
                why = ["the attempt did not return: " + crash[0]] + why
            elif not end_ok:
                why = ["the attempt leaves something behind: " + (t[-1] if t else "(nothing)")] + why
            fails.append((c, why, ans, t[-1] if t else "", text))
    return fails, stats


def replay_text(prop, c, why, ans, text):
    return ("# %s (late-failing open): %s\n# answer of the open: %s\n# case %s (%s)\nexpect-last blocks=0\nexpect-last lsan=0 fds=0 tmp=0\n%s--- script\n%s"
            % (prop, "; ".join(why), ans, c.name, c.kind, "c16-scenario\n" if prop == "C16" else "", text))


# ---- successful counterparts: ledger peek after every parsed chunk -------------------------------------------------------
def prefix_files(seed):
    """[(tag, bytes)]: header + the first k chunks in front of the audio chunk + the audio chunk and what follows it (RIFF/FORM sizes are
    not corrected: the parsers do not use them)"""
    an = anatomy(seed.data)
    if not an:
        return []
    kind, hl, chunks, csz = an
    ai = next((i for i, c in enumerate(chunks) if c[2] in AUDIO_IDS), None)
    fi = next((i for i, c in enumerate(chunks) if c[2] in FORMAT_IDS), None)
    if ai is None or fi is None or fi > ai:
        return []
    out = []
    head = seed.data[:hl]
    for k in range(fi, ai):
        body = b"".join(seed.data[a:e] for (a, e, _) in chunks[:k + 1])
        out.append(("upto-%d" % k, head + body + seed.data[chunks[ai][0]:]))
        out.append(("upto-%d-notail" % k, head + body + seed.data[chunks[ai][0]:chunks[ai][1]]))
    return out


def prefix_scenarios(L, seeds, quick, rng):
    """Sc scenarios (vlib/props/c16.py) for the correspondence: each prefix file opened for reading (routes rotate) with a ledger peek after
    the open and after the close.  Only the containers whose parse events `c16.predict_events` derives from the bytes."""
    out = []
    k = 0
    for s in seeds:
        if s.f.major not in RICH_MAJORS or s.f.codec not in (0x02, 0x06):
            continue
        if quick and s.f.endian not in (0, formats.LE) and s.tag not in ("cue", "all"):
            continue
        for (tag, blob) in prefix_files(s):
            if L.predict_events(blob) is None:
                continue
            route = ["vio", "path", "fd1", "fd0"][k % 4]
            k += 1
            sc = L.Sc("pfx-%s-%s-%s" % (s.name, tag, route), "prefix-open")
            sc.op("store s0 %s" % hx(blob))
            sc.open("h1", "s0", "r", s.f.word, s.ch, route, existing=True, frames=True)
            sc.op("r h1 s16 i %d" % (2 * s.ch), "other")
            sc.peek("h1")
            sc.close("h1")
            sc.end()
            sc.cls.add("prefix:%s:%s" % (formats.MAJOR_NAME.get(s.f.major), s.tag))
            out.append(sc)
    return out


def run_for(ctx, prop, L, fmts, seeds=None):
    """the late-failing-open campaign for C16 / C09; returns (found_a_failing_input, seeds)"""
    import time
    t0 = time.time()
    quick = ctx.tier == "quick"
    if seeds is None:
        seeds = make_seeds(ctx, fmts, L.LEAK_ENV)
    cs = cases(ctx, seeds, thin=8 if quick else 1)
    fails, stats = run_cases(ctx, cs, L.LEAK_ENV, L.KEEP, waive=L.waive_known)
    kinds = {}
    for c in cs:
        kinds[c.kind.rsplit(":", 1)[0]] = kinds.get(c.kind.rsplit(":", 1)[0], 0) + 1
        ctx.distinct.add(c.kind)
    ctx.count(len(cs), "late-open")
    ctx.notes["late_open"] = dict(stats, seeds=len(seeds), by_container=kinds, failures=len(fails), wall_s=round(time.time() - t0, 1),
                                  seed_tags=sorted(set(s.tag for s in seeds)))
    if cs:
        ctx.sample({"kind": "late-failing open", "case": cs[len(cs) // 3].name, "op": cs[len(cs) // 3].op})
    seen = set()
    for (c, why, ans, end, text) in fails:
        key = (c.kind, why[0].split(":")[0])
        if key in seen or len(seen) >= 4:
            continue
        seen.add(key)
        ctx.violation("%s-%s" % (prop.lower(), c.name), replay_text(prop, c, why, ans, text))
    return bool(fails), seeds
