"""Heap history for EVERY codec's private state, writers and readers (C19 "independent of what the library did earlier in the same
process"; C07 "repeating the run later or in another process yields byte-identical audio data and headers").

vlib/heapcamp.py runs whole all-format workloads under three allocator fills, two seed-sampled encodings per container.  What it
leaves to chance is exactly the place where heap contents reach a result: a codec's private struct / staging buffer that comes from
malloc and is only partly initialised shows in the FIRST block or the first samples of a handle, and only for inputs that do not
overwrite the stale part (a first block that is never completed, an odd sample held back, a read that starts before anything was
decoded).  This module is the deterministic slice: for EVERY codec (one or two containers each, all in the thorough tier; no
seed-sampled choice) three tiny scripts
   short   3 frames, close                       -- the only block is mostly padding: whatever the buffer held is encoded
   odd     1 frame, then block + 2 frames in a second call, header update, close   -- partial LAST block, state carried over calls
   reader  re-open (of the file `odd` made, in the same process: the reader's structs are recycled heap), read 2 items / seek 1 /
           read 5 frames / seek 0 / read across the first block
each run under three allocator fills (ASan run-time options of vlib/heapcamp.py): 0x00 = the heap of a fresh process (what every test
sees), 0x4b and 0xd7 = recycled memory (every malloc'ed byte pre-filled, calloc still zeroes).  Everything a script prints -- return
values, the data read back, the bytes of the closed file -- must be identical under all fills; a run that DIES under a non-zero fill
while the zero-filled run completes is a difference like any other (an index or a length taken from uninitialised memory).
The model side is the oracle `Junk` of lean/SfModel/HeaderBuf.lean generalised to codec state: lean/SfModel/HeapInit.lean
(`Sf.HeapInit`: a private struct as cells, `Init.calloc | mallocMemsetAll | mallocPartial`), theorems lean/SfProps/C19HeapInit.lean.

For C07 only the writer part counts (up to the dump of the closed file); the replay carries `c07-heapfill <byte>` and is re-judged by
`bin/check C07 --replay f`.  For C19 the whole transcript counts (`c19-heapcodec <byte>`, `bin/check C19 --replay f`)."""
import collections, re

from . import scripts as S, worldcamp as WC, heapcamp as HC


FILLS = [0x00, 0x4B, 0xD7]


def run_fills(ctx, env, jobs):
    return [ctx.batch([(n, t) for (n, t, _) in jobs], clean=True, env=HC.fill_env(env, fill), workers=4) for fill in FILLS]


def hx16(vals):
    return "".join("%04x" % (v & 0xFFFF) for v in vals)


def pattern(n, salt):
    return [((k * 2654435761 + salt * 40503) >> 7) & 0x7FFF if k % 3 else (-(k * 977 + salt) & 0xFFFF) for k in range(n)]


def pick(fs, quick):
    """one Fmt per (codec, container) -- in the quick tier the first and the last container of every codec (by name), every SDS / PAF width"""
    by = collections.defaultdict(dict)
    for f in sorted(fs, key=lambda f: f.name):
        if f.major == 0x16:
            continue                       # SD2 needs a path (vlib/heapcamp.py has it)
        key = (f.codec, f.major in (0x11, 0x05, 0x0F) and f.major)
        by[key].setdefault(f.major, f)
    out = []
    for key in sorted(by, key=lambda k: (k[0], k[1] or 0)):
        fl = [by[key][m] for m in sorted(by[key])]
        out += fl if not quick or len(fl) <= 2 else [fl[0], fl[-1]]
    return out


def scripts_for(f, idx):
    ch = 2 if (idx % 2 and f.maxch >= 2) else 1
    b = WC.block_hint(f)
    opn = "open h0 s0 w fmt=%08x ch=%d sr=8000" % (f.word, ch)
    raw = f.major == 0x04
    opr = ("open h0 s0 r fmt=%08x ch=%d sr=8000" % (f.word, ch)) if raw else "open h0 s0 r"
    n2 = min(b + 2, 4200)
    short = [opn, "w h0 s16 f 3 %s" % hx16(pattern(3 * ch, idx)), "close h0", "dump s0", opr, "r h0 s16 f %d" % min(b + 5, 600), "close h0"]
    odd = [opn, "w h0 s16 i %d %s" % (ch, hx16(pattern(ch, idx + 1))), "w h0 s16 f %d %s" % (n2, hx16(pattern(n2 * ch, idx + 2))),
           "cmd h0 1060 0 null", "close h0", "dump s0"]
    reader = odd + [opr, "r h0 s16 i %d" % (2 * ch), "seek h0 1 0", "r h0 s32 f 5", "seek h0 0 0", "r h0 f32 f %d" % min(b + 3, 600), "close h0"]
    return ch, [("short", short), ("odd", odd), ("reader", reader)]


def make_jobs(ctx, fs):
    quick = ctx.tier == "quick"
    jobs = []
    for idx, f in enumerate(pick(fs, quick)):
        ch, sc = scripts_for(f, idx)
        for kind, L in sc:
            if kind == "odd":
                continue                    # `reader` starts with it
            jobs.append(("hc-%s-%dch-%s" % (f.name, ch, kind), "\n".join(L) + "\n", f))
    return jobs


def writer_part(text):
    L = WC.lines_of(text)
    d = next((k for k, l in enumerate(L) if l.startswith("dump ")), len(L) - 1)
    return L[:d + 1]


def run(ctx, prop, env, fs):
    """prop: "C19" (whole transcripts) | "C07" (the writer part: results of the write calls and the closed file's bytes).
    Returns True when a failing input was reported."""
    jobs = make_jobs(ctx, fs)
    outs = run_fills(ctx, env, jobs)
    stats = collections.Counter()
    fails = []
    for (name, text, f) in jobs:
        nline = len(writer_part(text)) if prop == "C07" else None
        tr = [HC.canon(text, o.get(name, []))[:nline] for o in outs]
        stats["scripts"] += 1
        stats["ops"] += len(tr[0])
        ctx.distinct.add("heapcodec:%s" % f.name)
        if any(l.startswith(("CRASH", "ABORT", "TIMEOUT")) for l in tr[0]) or not tr[0] or not tr[0][0].startswith("open=ok"):
            stats["not_run"] += 1
            continue
        stats["codecs"] = len(set(t.split(":")[1].split("-", 1)[1] for t in ctx.distinct if t.startswith("heapcodec:")))
        for i in (1, 2):
            d = HC.first_diff(tr[0], tr[i]) or (HC.first_diff(tr[1], tr[2]) if i == 2 else None)
            if d is not None:
                fails.append((name, text, f, FILLS[i], d))
                break
    ctx.count(stats["ops"] * len(FILLS), "heap-codec")
    ctx.notes["heap_codec_state"] = dict(stats, fills=["0x%02x" % x for x in FILLS], failures=len(fails), formats=len(set(f.name for (_, _, f) in jobs)))
    seen = set()
    for (name, text, f, fill, (k, x, y)) in fails:
        if f.codec in seen or len(seen) >= 3:
            continue
        seen.add(f.codec)
        ops = WC.lines_of(text)
        if prop == "C07":
            ctx.violation("c07-heap-" + name,
                          "# C07 violated: the bytes of a written file depend on what the heap held before -- the same calls with the same samples give another file when the run is repeated later / in another process\n"
                          "# format %s; fresh heap memory pre-filled with 0x%02x instead of zeros (the heap of a fresh process): operation %d `%s` answers differently\n"
                          "# %s\nc07-heapfill %d\n--- script\n%s\n" % (f.name, fill, k, ops[k][:80] if k < len(ops) else "", HC.describe(x, y), fill, "\n".join(writer_part(text))))
        else:
            ctx.violation("c19-heapcodec-" + name,
                          "# C19 violated: a handle's results depend on what the heap held before (earlier use of the library in the same process)\n"
                          "# format %s; fresh heap memory pre-filled with 0x%02x instead of zeros (the heap of a fresh process): operation %d `%s` answers differently\n"
                          "# %s\nc19-heapcodec %d\n--- script\n%s" % (f.name, fill, k, ops[k][:80] if k < len(ops) else "", HC.describe(x, y), fill, text))
    if jobs:
        ctx.sample({"kind": "codec-state heap script (run under 3 allocator fills)", "name": jobs[0][0], "lines": [l[:90] for l in WC.lines_of(jobs[0][1])[:7]]})
    return bool(fails)


def replay(ctx, path, env):
    """replay (`c07-heapfill <byte>` / `c19-heapcodec <byte>`): the script on a zero-filled heap and under two fills"""
    text = open(path).read()
    fill = int(re.search(r"(?:c07-heapfill|c19-heapcodec) (\d+)", text).group(1))
    script = text.split("--- script", 1)[1].lstrip("\n")
    outs = [ctx.batch([("replay", script)], clean=True, env=HC.fill_env(env, fl))["replay"] for fl in (0, fill, 0xD7 if fill != 0xD7 else 0x4B)]
    tr = [HC.canon(script, o) for o in outs]
    d = HC.first_diff(tr[0], tr[1]) or HC.first_diff(tr[1], tr[2])
    if d is not None:
        print("replay: operation %d answers differently when fresh heap memory holds other bytes: %s" % (d[0], HC.describe(d[1], d[2])))
        ctx.report(path)
    else:
        print("replay: identical results and file bytes under every allocator fill (no violation on this tree)")
