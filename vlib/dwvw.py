"""DWVW campaign (C01 / C06 / C07 extension): AIFF and RAW files with the delta-width variable-word codec, 12 / 16 / 24
bits, one channel, against the byte-exact Lean model (lean/SfModel/Dwvw.lean, DwvwFile.lean; `sfmodel dwvw script`).

For every job the library writes caller values in several calls, the file is dumped, re-opened, read in one or many calls
and seeked; the model is run on the same write calls (-> bytes of the data region) and on the *library's* data region
(-> frame count at re-open, every read, every seek).  Some jobs go the other way: the byte stream is made by the model
(`sfmodel dwvw enc`) or is plain noise, stored as a RAW file and decoded by the library.

Correspondence (kind 'corr'): every write return value, the data region, frames at re-open, every read's return value and
delivered items, every seek's return value.

Property predicates on the implementation's own transcript (kind 'pred'):
  count      every write returns the count asked
  frames     (C01) the file re-opens with the number of frames written
  roundtrip  (C01) lossless caller type: one read of n items returns n items equal to what was written
  partition  (C07) same caller values, many calls vs. one call per run of equal type: same data region
  position   (C06) every read returns min (asked, frames - position)
  stream     (C06) every read delivers the slice of the sequential reference read at its position
  seek       (C06) SEEK_CUR 0 reports the position, a seek to frame 0 rewinds, any other target fails with -1

Known finding: KF-RAW-DWVW-FRAMES (RAW has no header: the frame count at re-open is an estimate F >= N, theorem
dwvw_raw_frames_partial).  Its class is exactly "RAW, the file re-opens with MORE frames than were written"; it is waived
only when the model shows the very same transcript on that job (no 'corr' problem).  KF-DWVW-TAIL-CALL (a decode call that
started after the look-ahead had passed the end of the data returned 0) is repaired: a count shortfall - fewer frames at
re-open, a read that returns less than min (asked, frames - position) - is a violation on AIFF and RAW alike.
"""
import collections, concurrent.futures

from . import scripts as S, kernels as K

DIG = K.TY_DIGITS
TYS = ["s16", "s32", "f32", "f64"]
AIFF, RAW = 0x020000, 0x040000
FORMATS = [(AIFF | 0x40, 12), (AIFF | 0x41, 16), (AIFF | 0x42, 24), (RAW | 0x40, 12), (RAW | 0x41, 16), (RAW | 0x42, 24)]
RATES = [8000, 44100, 22050, 11025, 96000, 1]
SMALL = [0, 1, 2, 3, 5, 6, 7, 8, 9, 15, 16, 17, 31, 33, 100, 255, 256, 257]
LENGTHS = SMALL + [2047, 2048, 2049, 2051, 2055, 2047, 2048, 2049, 2051, 2055, 4095, 4096, 4097]
CONTENTS = ["zero", "extremes", "alternate", "lcg", "uniform", "ramp", "quiet", "impulse", "loud-quiet", "mixture"]
OWN_KIND = {"C01": "roundtrip", "C06": "stream", "C07": "partition"}
KF_TAIL, KF_RAWF = "KF-DWVW-TAIL-CALL", "KF-RAW-DWVW-FRAMES"
M32 = 0xFFFFFFFF


def fmt_name(word, bits):
    return "%s-dwvw%d" % ("raw" if (word & 0xFFF0000) == RAW else "aiff", bits)


def sx(v):
    v &= M32
    return v - (1 << 32) if v & 0x80000000 else v


# ---------------------------------------------------------------------------------------------------
# contents: signed 32-bit values as the codec sees them (before the >> (32 - bits) of dwvw_encode_data)
# ---------------------------------------------------------------------------------------------------

def content(rng, kind, n, bits):
    sh = 32 - bits
    step = 1 << sh
    top = 0x7FFFFFFF & ~(step - 1)
    if n == 0:
        return []
    if kind == "zero":
        return [0] * n
    if kind == "extremes":
        pool = [top, -2**31, 0, -1, -step, step, top - step, -2**31 + step, 0x7FFFFFFF, 2 * step, -2 * step, 0x40000000, -0x40000000]
        return [rng.choice(pool) for _ in range(n)]
    if kind == "alternate":
        a, b = rng.choice([(top, -2**31), (0x7FFFFFFF, -2**31), (-2**31, top), (top, -top)])
        return [a if i % 2 == 0 else b for i in range(n)]
    if kind == "lcg":
        x = rng.getrandbits(32)
        out = []
        for _ in range(n):
            x = (x * 1664525 + 1013904223) & M32
            out.append(sx(x))
        return out
    if kind == "uniform":
        return [sx(rng.getrandbits(32)) for _ in range(n)]
    if kind == "ramp":
        inc = rng.choice([1, 3, 977, -977, 65537, -1, 1 << (bits - 3)]) * step
        x0 = rng.choice([0, -2**31, top, sx(rng.getrandbits(32))])
        return [sx(x0 + i * inc) for i in range(n)]
    if kind == "quiet":
        s2 = rng.choice([sh, sh, sh, 8, 16, 20])
        a = rng.choice([1, 1, 2, 3, 7])
        return [sx(rng.randrange(-a, a + 1) << s2) for _ in range(n)]
    if kind == "impulse":
        out = [0] * n
        for _ in range(rng.choice([1, 1, 2, 3])):
            out[rng.choice([0, 0, n // 2, rng.randrange(n)])] = rng.choice([step, -step, top, -2**31, 0x100, 5 * step])
        return out
    if kind == "loud-quiet":
        k = rng.randrange(0, n + 1) if n < 40 else n - rng.choice([3, 6, 10, 20, 40])
        return content(rng, rng.choice(["lcg", "uniform", "alternate", "ramp"]), k, bits) + content(rng, rng.choice(["zero", "quiet"]), n - k, bits)
    # mixture: segments of the kinds above
    out = []
    while len(out) < n:
        k = min(n - len(out), rng.choice([1, 2, 5, 17, 100, 300, 1000, 2048]))
        out += content(rng, rng.choice(CONTENTS[:-1]), k, bits)
    return out


def to_caller(ty, x, flags, lossless_bits=None):
    """the caller value (unsigned bit pattern) of type `ty` that stands for the codec value x"""
    if ty == "s32":
        v = x & M32
        if lossless_bits is not None:
            v &= ~((1 << (32 - lossless_bits)) - 1) & M32
        return v
    if ty == "s16":
        v = (x >> 16) & 0xFFFF
        if lossless_bits is not None:
            v &= ~((1 << max(0, 16 - lossless_bits)) - 1) & 0xFFFF
        return v
    if ty == "f32":
        return K.f32bits(x / 2147483648.0 if flags.get("normF", 1) else float(x))
    return K.f64bits(x / 2147483648.0 if flags.get("normD", 1) else float(x))


# ---------------------------------------------------------------------------------------------------
# jobs
# ---------------------------------------------------------------------------------------------------

class Job:
    """one harness script + one model script.
    kind: roundtrip | partition | twin | stream | modelmade (RAW file made of the model's bytes) | bytes (RAW file of noise)"""

    def __init__(self, name, word, bits, sr, flags, kind, cont, calls, rops, n):
        self.name, self.word, self.bits, self.sr, self.flags, self.kind, self.cont = name, word, bits, sr, flags, kind, cont
        self.calls, self.rops, self.n = calls, rops, n       # calls: (ty, unit, count, values); rops: ("r", ty, count) | ("seek", off, whence)
        self.raw = (word & 0xFFF0000) == RAW
        self.fmtname = fmt_name(word, bits)
        self.twin = None
        self.xs = None           # modelmade: codec values the model encodes
        self.store = None        # modelmade / bytes: hex of the file
        self.lines, self.mk = None, None

    def stored(self):
        return self.kind in ("modelmade", "bytes")

    def open_r(self):
        return ("open h2 s0 r fmt=%08x ch=1 sr=%d" % (self.word, self.sr)) if self.raw else "open h2 s0 r"

    def harness_script(self):
        """script text; self.lines / self.mk: the lines and, per line, the kind of model line that answers it (or None)"""
        lines, mk = [], []

        def add(l, m=None):
            lines.append(l)
            mk.append(m)
        if self.stored():
            add("store s0 " + (self.store or ""))
        else:
            add("open h1 s0 w fmt=%08x ch=1 sr=%d" % (self.word, self.sr))
            for l in K.flag_cmds("h1", self.flags):
                add(l)
            for (ty, unit, cnt, vals) in self.calls:
                add(S.w_line("h1", ty, unit, cnt, vals), "w")
            add("close h1")
            add("dump s0", "close")
        add(self.open_r(), "load")
        for l in K.flag_cmds("h2", self.flags):
            add(l)
        for op in self.rops:
            if op[0] == "r":
                add("r h2 %s i %d" % (op[1], op[2]), "r")
            else:
                add("seek h2 %d %d" % (op[1], op[2]), "seek")
        add("close h2")
        self.lines, self.mk = lines, mk
        return "\n".join(lines) + "\n"

    def model_script(self, datahex):
        """datahex: the library's file from the data offset to its end (AIFF: including the pad byte)"""
        head = "codec dwvw bits=%d" % self.bits + "".join(" %s=%d" % (k, v) for k, v in sorted(self.flags.items()))
        lines = [head]
        if not self.stored():
            for (ty, unit, cnt, vals) in self.calls:
                lines.append("w %s %s %d %s" % (ty, unit, cnt, K.hex_items(vals, DIG[ty])))
            lines.append("close")
        lines.append("load %s%s" % (datahex or "", "" if self.raw else " hdr=%d" % self.n))
        for op in self.rops:
            lines.append("r %s i %d" % (op[1], op[2]) if op[0] == "r" else "seek %d %d" % (op[1], op[2]))
        return "\n".join(lines) + "\n"


def split_calls(rng, n):
    out, left = [], n
    sizes = [1, 2, 7, 100, 2047, 2048, 2049, 4097, n, n] if rng.random() < 0.7 else [1, 1, 2, 3, 7, 29, 100]
    while left > 0:
        k = min(left, rng.choice(sizes))
        if len(out) > 60:
            k = left
        out.append(k)
        left -= k
    return out


def pieces(rng, total):
    """a read of `total` items cut into calls"""
    out, left = [], total
    sizes = [1, 2, 3, 100, 2047, 2048, 2049, 5000] if total > 300 or rng.random() < 0.3 else [1, 1, 2, 3, 7, 100]
    tail = rng.random() < 0.6
    while left > 0:
        k = min(left, rng.choice(sizes))
        if tail and left <= 14:
            k = min(left, rng.choice([1, 1, 2, 3]))
        elif len(out) > 80:
            k = left if not tail else max(1, left - 9)
        out.append(k)
        left -= k
    return out


def seek_ops(rng, n):
    """SEEK_CUR 0, a failing seek, SEEK_CUR 0 again, a rewind"""
    bad = rng.choice([(1, 0), (1, 0), (n, 0) if n else (2, 0), (n + 1, 0), (-1, 0), (2048, 0), (1, 1), (-1, 2), (1, 2)])
    ops = [("seek", 0, 1), ("seek", bad[0], bad[1]), ("seek", 0, 1)]
    ops.append(rng.choice([("seek", 0, 0), ("seek", 0, 0), ("seek", -n, 2)]))
    return ops


def read_plan(rng, kind, ty, n, piece=None):
    if kind == "roundtrip":
        ops = ([("r", ty, n)] if n else []) + [("r", ty, 5)]
        ops += seek_ops(rng, n)
        ops.append(("r", ty, min(n, rng.choice([1, 3, 100])) + 1))
        return ops
    if kind in ("partition", "twin"):
        return [("r", ty, n + 5), ("seek", 0, 1)]
    # stream / modelmade / bytes: reference read, rewind, the same again in pieces, seeks, and a second shorter pass
    ops = [("r", ty, n + 5), ("seek", 0, 0)]
    ops += [("r", ty, k) for k in (pieces(rng, n + 5) if piece is None else [piece] * ((n + 5 + piece - 1) // piece))]
    ops += seek_ops(rng, n)
    ops += [("r", ty, k) for k in pieces(rng, min(n + 5, rng.choice([3, 40, 300, 2100])))]
    ops.append(("seek", 0, 1))
    return ops


ANCHORS = [    # first jobs of every run: the two witnesses of KF-DWVW-TAIL-CALL, then inputs around them
    # (index into FORMATS, content, n, write / read type or None = the job kind's choice, size of the read pieces or None = random)
    (2, "impulse0", 2051, "s32", None),      # AIFF DWVW24, one step then zeros: re-opens with 2048 frames
    (2, "zero", 6, "s32", 1),                # AIFF DWVW24, six zeros read one item per call: the sixth call returns 0
    (1, "quiet", 2055, None, None), (5, "zero", 2049, None, None), (4, "quiet", 7, None, 1), (0, "impulse0", 4097, None, None),
]


# byte streams (RAW) whose real bits END IN ZEROS right where the decoder looks for a delta-width modifier: the zero run reaches 1..n bits into the
# padding shifted in behind the file, which is exactly what the end test `bit_count < pad_bits` has to notice (a count of padding bits that is off
# by one decodes one junk frame more or one frame fewer): (index into FORMATS, hex)
TAIL_STREAMS = [(4, "ff80"), (4, "ff00"), (4, "fffe"), (4, "ffc0"), (4, "ff8000"), (5, "fff800"), (5, "fff000"), (5, "fffc00"), (5, "ffff80"), (5, "ff"), (5, "fff80000"),
                (3, "fc"), (3, "f8"), (3, "ffe0"), (4, "7f80"), (5, "7ff800")]


def make_jobs(ctx, njobs, prop):
    rng = ctx.rng
    quick = ctx.tier == "quick"
    budget = 1150 * njobs           # frames over all jobs (quick, 120 jobs: 138 000)
    spent = 0
    jobs = []
    for i, (fi, hx) in enumerate(TAIL_STREAMS):
        word, bits = FORMATS[fi]
        j = Job("%s-b%d-tail-%d" % (fmt_name(word, bits), len(hx) // 2, i), word, bits, 8000, {}, "bytes", "bytes", [], read_plan(rng, "bytes", TYS[i % 4], 8 * len(hx)), 0)
        j.store = hx
        jobs.append(j)
    k = 0
    own = OWN_KIND[prop]
    while k < njobs:
        word, bits = FORMATS[k % len(FORMATS)]
        aty, apiece = None, None
        if k < len(ANCHORS):
            fi, cont, n, aty, apiece = ANCHORS[k]
            word, bits = FORMATS[fi]
            kind = own
        else:
            cont = rng.choice(CONTENTS)
            r = rng.random()
            n = rng.choice(LENGTHS) if r < 0.5 else rng.randrange(0, 300) if r < 0.8 else rng.randrange(300, 5000 if quick else 20000)
            if spent + n > budget * (k + 1) // njobs + (6000 if quick else 25000):
                n = rng.choice(SMALL)
            kind = own if rng.random() < 0.4 else rng.choice(["roundtrip", "partition", "stream", "modelmade", "bytes"])
        sr = rng.choice(RATES)
        flags = {}
        if kind in ("partition", "stream") and rng.random() < 0.25:
            flags = {"normF": rng.choice([0, 1]), "normD": rng.choice([0, 1])}
        if kind in ("modelmade", "bytes"):
            word = RAW | (word & 0xFFFF)
        name = "%s-n%d-%s-%s-%d" % (fmt_name(word, bits), n, kind, cont, k)
        k += 1
        spent += n
        if kind == "bytes":
            nb = min(n, 1500)
            j = Job("%s-b%d-bytes-%d" % (fmt_name(word, bits), nb, k - 1), word, bits, sr, flags, kind, "bytes", [], read_plan(rng, kind, rng.choice(TYS), min(8 * nb, 6000)), 0)
            j.store = "".join("%02x" % rng.choice([rng.getrandbits(8), rng.getrandbits(8), 0xFF, 0x00, 0x80, 0x01]) for _ in range(nb))
            jobs.append(j)
            continue
        if cont == "impulse0":
            xs = [1 << (32 - bits)] + [0] * (n - 1)
            cont = "impulse"
        else:
            xs = content(rng, cont, n, bits)
        if kind == "modelmade":
            j = Job(name, word, bits, sr, flags, kind, cont, [], read_plan(rng, kind, rng.choice(TYS), n), n)
            j.xs = xs
            jobs.append(j)
            continue
        if kind == "roundtrip":
            tys = [aty or rng.choice(["s16", "s32"])]
        elif aty is not None:
            tys = [aty]
        elif kind == "partition" or rng.random() < 0.5:
            tys = TYS
        else:
            tys = [rng.choice(TYS)]
        calls, i = [], 0
        for c in split_calls(rng, n):
            ty = rng.choice(tys)
            vals = [to_caller(ty, x, flags, bits if kind == "roundtrip" else None) for x in xs[i:i + c]]
            calls.append((ty, rng.choice("if"), c, vals))
            i += c
        rty = tys[0] if kind == "roundtrip" else aty or rng.choice(TYS)
        j = Job(name, word, bits, sr, flags, kind, cont, calls, read_plan(rng, kind, rty, n, apiece), n)
        jobs.append(j)
        if kind == "partition" and n > 0:
            merged = []
            for (ty, unit, cnt, vals) in calls:
                if merged and merged[-1][0] == ty:
                    merged[-1] = (ty, "i", merged[-1][2] + cnt, merged[-1][3] + vals)
                else:
                    merged.append((ty, "i", cnt, list(vals)))
            t = Job(name + "-twin", word, bits, sr, flags, "twin", cont, merged, j.rops, n)
            j.twin = t.name
            jobs.append(t)
            spent += n
    return jobs


# ---------------------------------------------------------------------------------------------------
# running the model
# ---------------------------------------------------------------------------------------------------

def model_encode(ctx, jobs):
    """first model pass: the byte streams of the `modelmade` jobs (`sfmodel dwvw enc <bits>`, one job per line)"""
    by = collections.defaultdict(list)
    for j in jobs:
        if j.kind == "modelmade":
            by[j.bits].append(j)

    def one(bits):
        js = by[bits]
        inp = "".join(K.hex_items(j.xs, 8) + "\n" for j in js)
        out = ctx.run_model(["dwvw", "enc", str(bits)], inp, timeout=3600).split("\n")
        for j, l in zip(js, out):
            j.store = l.strip()
        return len(js)

    if by:
        with concurrent.futures.ThreadPoolExecutor(max_workers=len(by)) as ex:
            list(ex.map(one, sorted(by)))


def run_model(ctx, scripts, workers=4):
    """scripts: list of (name, text) -> dict name -> output lines (`sfmodel dwvw script`)"""
    chunks = [scripts[i::workers] for i in range(workers)]
    chunks = [c for c in chunks if c]

    def one(chunk):
        inp = "".join("== %s\n%s" % (n, t) for (n, t) in chunk)
        out = ctx.run_model(["dwvw", "script"], inp, timeout=3600)
        res, cur = {}, None
        for line in out.split("\n"):
            if line.startswith("== "):
                cur = line[3:]
                res[cur] = []
            elif cur is not None and line:
                res[cur].append(line)
        return res

    out = {}
    with concurrent.futures.ThreadPoolExecutor(max_workers=len(chunks) or 1) as ex:
        for r in ex.map(one, chunks):
            out.update(r)
    return out


# ---------------------------------------------------------------------------------------------------
# analysis
# ---------------------------------------------------------------------------------------------------

def kv(line):
    d = {}
    for t in line.split():
        if "=" in t:
            a, b = t.split("=", 1)
            d[a] = b
    return d


def items_of(hexs, ty):
    w = DIG[ty]
    return [hexs[i:i + w] for i in range(0, len(hexs) - w + 1, w)]


def data_region(job, filehex):
    """the library's file from the data offset to the end: AIFF 16 bytes after the SSND marker, RAW everything"""
    if job.raw:
        return filehex
    i = filehex.find("53534e44")
    while i >= 0 and i % 2:
        i = filehex.find("53534e44", i + 1)
    return filehex[i + 32:] if i >= 0 else ""


def dump_hex(lines):
    l = next((l for l in lines if l.startswith("len=") and "hex=" in l), None)
    return l.split("hex=")[1].strip() if l is not None else ""


class Problem:
    """kind 'corr' (model vs implementation) or 'pred' (property predicate on the implementation's own transcript).
    kf: ids of the known findings whose signature this failure shows (empty: wrong values, excess, anything else)"""

    def __init__(self, job, kind, cat, text, line=None, impl=None, model=None, kf=(), expect=None):
        self.job, self.kind, self.cat, self.text, self.line, self.impl, self.model = job, kind, cat, text, line, impl, model
        self.kf, self.expect = set(kf), expect
        self.twin_script = None


def analyse(job, impl, model):
    """compare one job; returns (list of Problem, info)"""
    probs = []
    sl, mk = job.lines, job.mk
    info = {"frames": None, "datahex": None, "items": 0, "bytes": 0, "reads": 0, "seeks": 0}
    died = next((l for l in impl if l.startswith(("CRASH", "ABORT", "TIMEOUT"))), None)
    if died is not None:
        return [Problem(job, "pred", "crash", "implementation died: " + died, max(0, min(len(impl), len(sl)) - 1))], info
    if len(impl) < len(sl):
        return [Problem(job, "pred", "crash", "transcript ends early (%d of %d lines)" % (len(impl), len(sl)), len(impl))], info
    short = ()           # since the repair of KF-DWVW-TAIL-CALL no count shortfall is a known finding
    mi = 0
    F, pos, ref, posbroken = 0, 0, None, False
    written = None
    if job.kind == "roundtrip":
        written = [("%0" + str(DIG[ty]) + "x") % v for (ty, _, _, vals) in job.calls for v in vals]
    for k, (op, out) in enumerate(zip(sl, impl)):
        t = op.split()
        m = None
        if mk[k] is not None:
            m = model[mi] if mi < len(model) else "<missing>"
            mi += 1
        if t[0] == "open":
            if "open=ok" not in out:
                probs.append(Problem(job, "pred", "open", "open failed: %s" % out[:200], k))
                return probs, info
            if t[3] == "r":
                F = int(kv(out).get("frames", -1))
                info["frames"] = F
                if m.strip() != "frames=%d" % F:
                    probs.append(Problem(job, "corr", "frames", "frames after re-open", k, out, m))
                if not job.stored() and F != job.n:
                    kf = {KF_RAWF} if job.raw and F > job.n else set()          # the estimate of a headerless file: never below N
                    probs.append(Problem(job, "pred", "frames", "%d frames written, the file re-opens with %d frames" % (job.n, F), k, kf=kf, expect="frames=%d " % job.n))
        elif t[0] == "w":
            if S.normalise(out) != S.normalise(m):
                probs.append(Problem(job, "corr", "write", "write return value", k, out, m))
            if kv(out).get("ret") != t[4]:
                probs.append(Problem(job, "pred", "count", "write of %s items returned %s" % (t[4], kv(out).get("ret")), k, expect="ret=%s " % t[4]))
        elif t[0] == "dump":
            data = data_region(job, out.split("hex=")[1].strip() if "hex=" in out else "")
            info["datahex"] = data
            md = m.split("data=")[1].strip() if "data=" in m else "?"
            if not job.raw and (len(md) // 2) % 2:
                md += "00"                                   # the AIFF container pads the SSND chunk to an even length
            info["bytes"] = len(data) // 2
            if data != md:
                d = next((i for i in range(0, min(len(data), len(md)), 2) if data[i:i + 2] != md[i:i + 2]), min(len(data), len(md)))
                probs.append(Problem(job, "corr", "bytes", "data region differs from byte %d (lengths %d / %d): implementation …%s model …%s"
                                     % (d // 2, len(data) // 2, len(md) // 2, data[max(0, d - 8):d + 24], md[max(0, d - 8):d + 24]), k,
                                     "len=%d" % (len(data) // 2), "len=%d" % (len(md) // 2)))
        elif t[0] == "r":
            ty, req = t[2], int(t[4])
            a, b = kv(out), kv(m)
            ret = int(a.get("ret", -1))
            da = a.get("data", "")[:max(ret, 0) * DIG[ty]]          # cells beyond the return value: 0xA5 fill, zeros or stale
            db = b.get("data", "")
            if a.get("ret") != b.get("ret") or da != db or (a.get("err") == "0") != (b.get("err") == "0"):
                probs.append(Problem(job, "corr", "read", "read result", k, out[:400], m[:400]))
            info["reads"] += 1
            info["items"] += max(ret, 0)
            got = items_of(da, ty)
            exp = min(req, max(F - pos, 0))
            if ref is None:
                ref = got
                if written is not None and job.calls and ty == job.calls[0][0] and req == len(written):
                    c = min(len(got), len(written))
                    d = next((i for i in range(c) if got[i] != written[i]), None)
                    if d is not None:
                        probs.append(Problem(job, "pred", "roundtrip", "item %d read back as %s, written as %s (%d items written, %d read)"
                                             % (d, got[d], written[d], len(written), len(got)), k, expect="data=" + "".join(written)))
                    elif ret != len(written):
                        probs.append(Problem(job, "pred", "roundtrip", "%d items written, one read of %d items returned %d (the items delivered are the items written)"
                                             % (len(written), req, ret), k, kf=short if ret < len(written) else (), expect="ret=%d " % len(written)))
            else:
                c = min(len(got), max(len(ref) - pos, 0))
                d = next((i for i in range(c) if got[i] != ref[pos + i]), None)
                if d is not None and not posbroken:
                    probs.append(Problem(job, "pred", "stream", "read of %d items at frame %d: item %d is %s, the sequential read delivered %s there"
                                         % (req, pos, d, got[d], ref[pos + d]), k, expect="data=" + "".join(ref[pos:pos + c])))
                    posbroken = True
            if ret != exp and not posbroken:
                probs.append(Problem(job, "pred", "position", "read of %d items at frame %d of %d returned %d" % (req, pos, F, ret), k,
                                     kf=short if 0 <= ret < exp else (), expect="ret=%d " % exp))
                posbroken = True
            pos += max(ret, 0)
        elif t[0] == "seek":
            a, b = kv(out), kv(m)
            if a.get("ret") != b.get("ret") or (a.get("err") == "0") != (b.get("err") == "0"):
                probs.append(Problem(job, "corr", "seek", "seek result", k, out, m))
            info["seeks"] += 1
            off, wh, ret = int(t[2]), int(t[3]), int(a.get("ret", -2))
            if wh == 1 and off == 0:
                want, what = pos, "sf_seek (0, SEEK_CUR) after %d frames were delivered" % pos
            else:
                target = off if wh == 0 else pos + off if wh == 1 else F + off
                want, what = (0, "seek to frame 0") if target == 0 else (-1, "seek to frame %d of %d (DWVW can only rewind)" % (target, F))
            if ret != want:
                probs.append(Problem(job, "pred", "seek", "%s returned %d" % (what, ret), k, expect="ret=%d " % want))
            elif not (wh == 1 and off == 0) and want == 0:
                pos, posbroken = 0, False
    return probs, info


def campaign(ctx, njobs, prop):
    """runs the campaign; returns (jobs, harness scripts, problems, stats)"""
    jobs = make_jobs(ctx, njobs, prop)
    model_encode(ctx, jobs)
    hs = {j.name: j.harness_script() for j in jobs}
    impl = ctx.batch([(j.name, hs[j.name]) for j in jobs], workers=4, clean=True)
    ms = []
    for j in jobs:
        data = j.store if j.stored() else data_region(j, dump_hex(impl.get(j.name, [])))
        ms.append((j.name, j.model_script(data)))
    model = run_model(ctx, ms)
    stats = collections.Counter()
    probs, infos = [], {}
    for j in jobs:
        p, info = analyse(j, impl.get(j.name, []), model.get(j.name, []))
        infos[j.name] = info
        probs += p
        stats["jobs"] += 1
        stats["ops"] += len(j.lines)
        stats["frames_written"] += 0 if j.stored() else j.n
        stats["items_read_and_compared"] += info["items"]
        stats["reads_compared"] += info["reads"]
        stats["seeks_compared"] += info["seeks"]
        stats["data_region_bytes_compared"] += info["bytes"]
        stats["fmt:" + j.fmtname] += 1
        stats["kind:" + j.kind] += 1
        if j.stored():
            stats["model_made_streams_decoded" if j.kind == "modelmade" else "noise_streams_decoded"] += 1
            stats["stored_stream_bytes"] += len(j.store or "") // 2
        ctx.distinct.add("dwvw:%s:%s" % (j.fmtname, j.kind))
        ctx.distinct.add("dwvw:content:%s" % j.cont)
    byname = {j.name: j for j in jobs}
    for j in jobs:
        if not j.twin:
            continue
        a, b = infos.get(j.name, {}).get("datahex"), infos.get(j.twin, {}).get("datahex")
        if a is None or b is None:
            continue
        stats["twins_compared"] += 1
        if a != b:
            d = next((i for i in range(0, min(len(a), len(b)), 2) if a[i:i + 2] != b[i:i + 2]), min(len(a), len(b)))
            pr = Problem(j, "pred", "partition", "the same caller values written in %d calls and in %d calls give data regions that differ from byte %d (lengths %d / %d)"
                         % (len(j.calls), len(byname[j.twin].calls), d // 2, len(a) // 2, len(b) // 2), None)
            pr.twin_script = hs[j.twin]
            probs.append(pr)
    return jobs, hs, probs, stats


CATS = {
    "C01": {"roundtrip", "count", "frames", "crash", "open"},
    "C06": {"stream", "position", "seek", "crash", "open"},
    "C07": {"partition", "crash", "open"},
}
WAIVABLE = {"roundtrip", "frames", "stream", "position"}


def waiver(ctx, prop, p, corr_jobs):
    """the known-finding entry that covers this failing predicate, or None"""
    if p.cat not in WAIVABLE or not p.kf or p.job.name in corr_jobs:
        return None
    for kid in (KF_RAWF,):
        if kid in p.kf:
            ent = next((e for e in ctx.known if e.get("id") == kid and e.get("status") == "known" and prop in e.get("properties", [])), None)
            if ent is not None:
                return ent
    return None


def run(ctx, prop, njobs):
    """called from the property's run(): reports violations / known findings; returns True if a failing input was reported"""
    jobs, hs, probs, stats = campaign(ctx, njobs, prop)
    ctx.count(stats["ops"])
    ctx.coverage["traces_validated_against_impl"] += stats["jobs"]
    corr = [p for p in probs if p.kind == "corr"]
    corr_jobs = {p.job.name for p in corr}
    found = False
    reported = set()
    kf_jobs = collections.defaultdict(set)
    for p in probs:
        if p.kind != "pred" or p.cat not in CATS[prop]:
            continue
        j = p.job
        ent = waiver(ctx, prop, p, corr_jobs)
        if ent is not None:
            kf_jobs[ent["id"]].add(j.name)
            ctx.known_finding(ent)
            continue
        key = (j.fmtname, p.cat)
        if key in reported or len(reported) >= 3:
            continue
        reported.add(key)
        found = True
        sl = j.lines
        script = "\n".join(sl[:p.line + 1] if p.line is not None else sl) + "\n"
        if p.twin_script:
            script = hs[j.name] + "# --- the same caller values, one call per run of equal type:\n" + p.twin_script
        head = ""
        if p.expect and p.line is not None:
            head = "expect-last %s\n" % p.expect
        why = ""
        if p.cat in WAIVABLE and p.kf:
            why = ("# not the known DWVW findings: the model does not show this transcript (%s)\n" % next(q.text for q in corr if q.job is j)) if j.name in corr_jobs \
                else "# (no known-finding entry for %s covers it)\n" % prop
        ctx.violation("%s-dwvw-%s-%s" % (prop.lower(), j.fmtname, p.cat),
                      "# %s violated on the implementation's own transcript (DWVW campaign, predicate '%s')\n# format %s (%08x), 1 channel, %d frames, job kind %s, content %s\n# %s\n%s%s--- script\n%s"
                      % (prop, p.cat, j.fmtname, j.word, j.n, j.kind, j.cont, p.text, why, head, script))
    if corr and not found:
        p = corr[0]
        j = p.job
        ln = p.line or 0
        ctx.violation("%s-dwvw-correspondence-%s" % (prop.lower(), j.fmtname),
                      "# correspondence stream 'DWVW model (Sf.Dwvw) vs implementation' no longer agrees: %d differences in %d of %d jobs\n"
                      "# first: %s (%s), script line %d: %s\n# %s\n# implementation: %s\n# model: %s\n"
                      "# the %s predicates on the implementation's transcripts found no failing input\n--- script\n%s"
                      % (len(corr), len(corr_jobs), stats["jobs"], j.name, p.cat, ln, j.lines[ln][:100], p.text[:400], (p.impl or "")[:300], (p.model or "")[:300], prop,
                         "\n".join(j.lines[:ln + 1]) + "\n"), no_input=True)
        found = True
    note = {k: v for k, v in sorted(stats.items())}
    note["correspondence_differences"] = len(corr)
    note["jobs_showing_known_finding"] = {k: len(v) for k, v in sorted(kf_jobs.items())}
    note["predicate_failures_by_category"] = dict(collections.Counter(p.cat for p in probs if p.kind == "pred"))
    ctx.notes["dwvw"] = note
    ctx.sample({"kind": "DWVW job (%s)" % prop, "jobs": stats["jobs"], "example": next((t for t in hs.values() if len(t) < 700), next(iter(hs.values()))[:700])})
    ctx.coverage["rule"] = (ctx.coverage.get("rule", "") + " | dwvw: AIFF and RAW x DWVW 12/16/24, 1 channel: contents {zero, extremes, alternating full scale, LCG / uniform noise, ramps, quiet, impulse, "
                            "loud then quiet, mixtures}, lengths {0..9,15..17,31,33,100,255..257,2047..2049,2051,2055,4095..4097} and random up to 5000 (quick) / 20000 frames, written in calls of "
                            "{1,2,7,100,2047,2048,2049,4097,whole} items of one or mixed caller types, read back whole and in pieces of {1,2,3,100,2047,2048,2049,5000}, SEEK_CUR 0 / rewind / failing seeks; "
                            "model-made and noise byte streams decoded by the library; bytes, return values, frame counts and items compared with the Lean model (sampled, not exhaustive)")
    return found
