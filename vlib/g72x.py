"""G.721 / G.723 campaign (C05 / C06 / C07 extension): AU (G721_32, G723_24, G723_40) and WAV (G721_32) files, one channel,
against the bit-exact Lean model of the codec and of src/g72x.c (lean/SfModel/G72x.lean, G72xFile.lean; `sfmodel g72x script`).

Job kinds
  write     the library writes caller values of any type in several calls; the file is dumped, re-opened and read whole; a second
            handle reads it again in pieces with (failing) seeks in between.  Twin: the same values, one call per run of equal type.
  bytes     the data region is adversarial (every code value, constant codes that saturate the predictor and wrap its coefficients,
            noise, lengths that are not whole blocks), put behind a header and decoded by the library through sf_read_*.
  nomono    two channels: the open must be refused (write: by sf_format_check / g72x_init; read: by g72x_init).

Besides the jobs: `pregen` (before the Lean stage) extracts the static tables of src/G72x/*.c by execution into
lean/SfModel/Generated/G72xTables.lean, and `core_campaign` links src/G72x/*.c alone (ASan) and compares g72x_encode_block /
g72x_decode_block with the model for all FOUR rates (G.723 16 kbit/s is reachable through no libsndfile format).

Correspondence (kind 'corr'): every write return value, the data region byte for byte, frames at re-open, every read's return value
and ALL cells of the caller's buffer, every seek's return value, the refusal of two channels.

Property predicates on the implementation's own transcript (kind 'pred'):
  count      (C05) every write returns the count asked
  frames     (C05) N frames written: the file re-opens with N <= F < N + 120 frames
  position   (C05/C06) every read returns min (asked, F - position)
  zerofill   (C05) a read that returns less than asked leaves zeros in the rest of the requested region, error 0
  stream     (C05/C06) every read delivers the slice of the sequential reference read (another handle) at its position
  seek       (C06) the handle reports seekable = 0: every sf_seek returns -1 with an error set (and moves nothing: `stream`)
  partition  (C07) same caller values, many calls vs. one call per run of equal type: identical files
"""
import collections, concurrent.futures

from . import scripts as S, kernels as K

DIG = K.TY_DIGITS
TYS = ["s16", "s32", "f32", "f64"]
AU, WAV = 0x030000, 0x010000
FORMATS = [(AU | 0x30, 4), (AU | 0x31, 3), (AU | 0x32, 5), (WAV | 0x30, 4)]
AU_ENC = {4: 23, 3: 25, 5: 26}
SPB = 120
RATES = [8000, 8000, 11025, 44100, 1]
LENGTHS = [0, 1, 2, 7, 119, 120, 121, 239, 240, 241, 359, 361, 1000, 4095, 4096, 4097, 4215, 4216, 4217, 4321, 8193]
CONTENTS = ["zero", "extremes", "alternate", "uniform", "walk", "sine", "quiet", "impulse", "steps", "mixture"]
OWN = {"C05": "position", "C06": "stream", "C07": "partition"}
M16 = 0xFFFF


def fmt_name(word, bits):
    return "%s-%s" % ("wav" if (word & 0xFFF0000) == WAV else "au", {4: "g721_32", 3: "g723_24", 5: "g723_40"}[bits])


def bpb(bits):
    return SPB * bits // 8


def sx16(v):
    v &= M16
    return v - 65536 if v & 0x8000 else v


# ---------------------------------------------------------------------------------------------------
# contents: the shorts the codec sees
# ---------------------------------------------------------------------------------------------------

def content(rng, kind, n):
    if n == 0:
        return []
    if kind == "zero":
        return [0] * n
    if kind == "extremes":
        pool = [32767, -32768, 0, -1, 1, 3, 4, -4, -5, 32764, -32765, 16384, -16384, 8191, -8192]
        return [rng.choice(pool) for _ in range(n)]
    if kind == "alternate":
        a, b = rng.choice([(32767, -32768), (-32768, 32767), (32767, -32767), (16000, -16000), (4, -4)])
        p = rng.choice([1, 1, 2, 3, 60])
        return [a if (i // p) % 2 == 0 else b for i in range(n)]
    if kind == "uniform":
        return [rng.randrange(-32768, 32768) for _ in range(n)]
    if kind == "walk":
        x, out, s = 0, [], rng.choice([10, 300, 3000])
        for _ in range(n):
            x = max(-32768, min(32767, x + rng.randrange(-s, s + 1)))
            out.append(x)
        return out
    if kind == "sine":
        # integer resonator (no floats): y[k+1] = c*y[k]/2^14 - y[k-1]
        c = rng.choice([32000, 30000, 20000, 0, -20000, 32700])
        a, b, out = 0, rng.choice([100, 3000, 12000]), []
        for _ in range(n):
            out.append(max(-32768, min(32767, a)))
            a, b = b, (c * b >> 14) - a
            b = max(-40000, min(40000, b))
        return out
    if kind == "quiet":
        a = rng.choice([1, 2, 3, 7, 20])
        return [rng.randrange(-a, a + 1) for _ in range(n)]
    if kind == "impulse":
        out = [0] * n
        for _ in range(rng.choice([1, 1, 2, 3])):
            out[rng.choice([0, 0, n // 2, rng.randrange(n)])] = rng.choice([32767, -32768, 4, -4, 1000])
        return out
    if kind == "steps":
        out = []
        while len(out) < n:
            out += [rng.choice([32767, -32768, 0, 20000, -20000, 8000])] * rng.choice([1, 5, 40, 130, 700])
        return out[:n]
    out = []
    while len(out) < n:
        k = min(n - len(out), rng.choice([1, 2, 5, 17, 100, 120, 300, 1000]))
        out += content(rng, rng.choice(CONTENTS[:-1]), k)
    return out


def to_caller(rng, ty, x, flags, wild):
    """the caller value (unsigned bit pattern) of type `ty` that stands for the short x; `wild`: floats out of the short range too
    (src/g72x.c does not clip: the rounded value is truncated to a short)"""
    if ty == "s16":
        return x & M16
    if ty == "s32":
        return ((x << 16) | rng.getrandbits(16)) & 0xFFFFFFFF
    v = x + (rng.choice([0, 0, 0, 0.25, -0.25, 0.5, 0.49, -0.5, 0.75]) if wild else 0) + (65536 * rng.choice([0, 0, 1, -1, 3, 40000, -70000]) if wild and rng.random() < 0.2 else 0)
    if ty == "f32":
        return K.f32bits(v / 32768.0 if flags.get("normF", 1) else float(v))
    return K.f64bits(v / 32768.0 if flags.get("normD", 1) else float(v))


# ---------------------------------------------------------------------------------------------------
# files around adversarial data
# ---------------------------------------------------------------------------------------------------

def le32(v):
    return "".join("%02x" % ((v >> (8 * i)) & 0xFF) for i in range(4))


def le16(v):
    return "%02x%02x" % (v & 0xFF, (v >> 8) & 0xFF)


def file_around(word, bits, sr, ch, datahex):
    n = len(datahex) // 2
    if (word & 0xFFF0000) == AU:
        return "2e736e64" + "%08x%08x%08x%08x%08x" % (24, n, AU_ENC[bits], sr, ch) + datahex
    fmt = "666d7420" + le32(20) + le16(0x40) + le16(ch) + le32(sr) + le32(sr * ch // 2) + le16(0x40) + le16(4) + le16(2) + le16(0)
    fact = "66616374" + le32(4) + le32(2 * n)
    data = "64617461" + le32(n) + datahex
    body = "57415645" + fmt + fact + data
    return "52494646" + le32(len(body) // 2) + body


def adversarial(rng, bits, kind, nbytes):
    if kind == "noise":
        return [rng.getrandbits(8) for _ in range(nbytes)]
    if kind == "const":
        # one code repeated: top positive / top negative code wind the step size and the predictor coefficients to their limits
        # (after ~2000 samples the zero-predictor coefficients b[i] pass 32767 and wrap)
        c = rng.choice([(1 << (bits - 1)) - 1, 1 << (bits - 1), (1 << bits) - 1, 0, 1, rng.randrange(1 << bits)])
        v = 0
        for k in range(8):
            v |= c << (bits * k)
        return [(v >> (8 * (i % bits))) & 0xFF for i in range(nbytes)]
    if kind == "cycle":
        # every code value in turn
        v, nb, out, c = 0, 0, [], rng.randrange(1 << bits)
        step = rng.choice([1, 3, 5, 7])
        while len(out) < nbytes:
            v |= c << nb
            nb += bits
            c = (c + step) % (1 << bits)
            while nb >= 8:
                out.append(v & 0xFF)
                v >>= 8
                nb -= 8
        return out[:nbytes]
    if kind == "bytepool":
        pool = [0x00, 0xFF, 0x77, 0x88, 0x7F, 0x80, 0xF0, 0x0F, rng.getrandbits(8)]
        return [rng.choice(pool) for _ in range(nbytes)]
    # runs: long constant stretches with noise in between
    out = []
    while len(out) < nbytes:
        out += adversarial(rng, bits, rng.choice(["const", "const", "noise", "cycle"]), min(nbytes - len(out), rng.choice([3, 45, 200, 700])))
    return out


# ---------------------------------------------------------------------------------------------------
# jobs
# ---------------------------------------------------------------------------------------------------

class Job:
    def __init__(self, name, word, bits, sr, flags, kind, cont, calls, plans, n, ch=1):
        self.name, self.word, self.bits, self.sr, self.flags, self.kind, self.cont = name, word, bits, sr, flags, kind, cont
        self.calls, self.plans, self.n, self.ch = calls, plans, n, ch     # plans: one list of read ops per read handle
        self.fmtname = fmt_name(word, bits)
        self.twin = None
        self.store = None
        self.lines, self.mk = None, None

    def stored(self):
        return self.kind in ("bytes", "nomono-r")

    def harness_script(self):
        lines, mk = [], []

        def add(l, m=None):
            lines.append(l)
            mk.append(m)
        if self.stored():
            add("store s0 " + (self.store or ""))
        else:
            add("open h1 s0 w fmt=%08x ch=%d sr=%d" % (self.word, self.ch, self.sr), "openw")
            if self.kind != "nomono-w":
                for l in K.flag_cmds("h1", self.flags):
                    add(l)
                for (ty, unit, cnt, vals) in self.calls:
                    add(S.w_line("h1", ty, unit, cnt, vals), "w")
                add("close h1")
                add("dump s0", "close")
        for k, plan in enumerate(self.plans):
            h = "h%d" % (k + 2)
            add("open %s s0 r" % h, "load")
            if self.kind == "nomono-r":
                continue
            for l in K.flag_cmds(h, self.flags):
                add(l)
            for op in plan:
                if op[0] == "r":
                    add("r %s %s %s %d" % (h, op[1], op[3], op[2]), "r")
                else:
                    add("seek %s %d %d" % (h, op[1], op[2]), "seek")
            add("close %s" % h)
        self.lines, self.mk = lines, mk
        return "\n".join(lines) + "\n"

    def model_script(self, datahex):
        head = "codec g72x bits=%d ch=%d" % (self.bits, self.ch) + "".join(" %s=%d" % (k, v) for k, v in sorted(self.flags.items()))
        lines = [head]
        if not self.stored():
            lines.append("openw")
            if self.kind != "nomono-w":
                for (ty, unit, cnt, vals) in self.calls:
                    lines.append("w %s %s %d %s" % (ty, unit, cnt, K.hex_items(vals, DIG[ty])))
                lines.append("close")
        for plan in self.plans:
            lines.append("load %s" % (datahex or ""))
            if self.kind == "nomono-r":
                continue
            for op in plan:
                lines.append("r %s %s %d" % (op[1], op[3], op[2]) if op[0] == "r" else "seek %d %d" % (op[1], op[2]))
        return "\n".join(lines) + "\n"


def split_calls(rng, n):
    out, left = [], n
    sizes = [1, 7, 119, 120, 121, 240, 1000, 4095, 4096, 4097, n, n] if rng.random() < 0.7 else [1, 1, 2, 3, 59, 60, 61, 119, 121]
    while left > 0:
        k = min(left, rng.choice(sizes))
        if len(out) > 50:
            k = left
        out.append(k)
        left -= k
    return out


def pieces(rng, total):
    out, left = [], total
    sizes = [1, 2, 119, 120, 121, 240, 1000, 4095, 4096, 4097, 5000] if total > 300 or rng.random() < 0.3 else [1, 1, 2, 3, 7, 60, 119, 120, 121]
    while left > 0:
        k = min(left, rng.choice(sizes))
        if len(out) > 60:
            k = left
        out.append(k)
        left -= k
    return out


def read_plans(rng, F, tys):
    """handle 2: one sequential reference read (F + 5 items) and a read at end of data; handle 3: the same stream in pieces of mixed
    types with seeks (all must fail) in between, running past the end"""
    ty = rng.choice(tys)
    ref = [("r", ty, F + 5, rng.choice("if")), ("r", ty, 3, "i")]
    plan = []
    over = rng.choice([1, 5, 119, 121, 4097])
    for k in pieces(rng, F + over) if rng.random() < 0.85 else [F + over]:
        if rng.random() < 0.15:
            plan.append(("seek",) + rng.choice([(0, 1), (0, 0), (1, 1), (-1, 1), (0, 2), (F // 2, 0), (120, 0), (F, 0), (-120, 2)]))
        plan.append(("r", ty if rng.random() < 0.8 else rng.choice(tys), k, rng.choice("if")))
    plan.append(("seek", 0, 1))
    plan.append(("r", ty, 2, "i"))
    return [ref, plan]


def make_jobs(ctx, njobs, prop):
    rng = ctx.rng
    quick = ctx.tier == "quick"
    jobs = []
    budget, spent = 1500 * njobs, 0
    own = OWN[prop]
    k = 0
    while k < njobs:
        word, bits = FORMATS[k % len(FORMATS)]
        sr = rng.choice(RATES)
        r = rng.random()
        n = LENGTHS[k % len(LENGTHS)] if k < 2 * len(LENGTHS) else rng.choice(LENGTHS) if r < 0.4 else rng.randrange(0, 500) if r < 0.8 else rng.randrange(500, 6000 if quick else 30000)
        if spent + n > budget * (k + 1) // njobs + 20000:
            n = rng.choice(LENGTHS[:12])
        kr = rng.random()
        if k % 23 == 22:
            kind = rng.choice(["nomono-w", "nomono-r"])
        elif prop == "C07":
            kind = "write" if kr < 0.8 else "bytes"
        else:
            kind = "write" if kr < 0.55 else "bytes"
        flags = {}
        if rng.random() < 0.3:
            flags = {"normF": rng.choice([0, 1]), "normD": rng.choice([0, 1])}
        name = "%s-n%d-%s-%d" % (fmt_name(word, bits), n, kind, k)
        k += 1
        if kind == "nomono-w":
            jobs.append(Job(name, word, bits, sr, {}, kind, "-", [], [], 0, ch=rng.choice([2, 2, 3])))
            continue
        if kind == "nomono-r":
            j = Job(name, word, bits, sr, {}, kind, "-", [], [[]], 0, ch=rng.choice([2, 2, 6]))
            j.store = file_around(word, bits, sr, j.ch, "".join("%02x" % b for b in adversarial(rng, bits, "noise", 2 * bpb(bits))))
            jobs.append(j)
            continue
        if kind == "bytes":
            B = bpb(bits)
            nb = rng.choice([0, 1, B - 1, B, B + 1, 2 * B + 7, 3 * B, 10 * B - 1, 20 * B, rng.randrange(1, 40 * B)]) if rng.random() < 0.8 else rng.choice([25 * B, 40 * B, 60 * B])
            cont = rng.choice(["noise", "const", "const", "cycle", "bytepool", "runs"])
            if cont == "const" and rng.random() < 0.5:
                nb = rng.choice([22 * B, 30 * B, 45 * B])          # long enough for the coefficient wrap
            j = Job("%s-b%d-%s-%d" % (fmt_name(word, bits), nb, cont, k - 1), word, bits, sr, flags, kind, cont, [], None, 0)
            data = adversarial(rng, bits, cont, nb)
            j.datahex = "".join("%02x" % b for b in data)
            j.store = file_around(word, bits, sr, 1, j.datahex)
            F = ((nb + B - 1) // B) * SPB
            j.plans = read_plans(rng, F, TYS)
            j.n = F
            spent += F
            jobs.append(j)
            continue
        cont = rng.choice(CONTENTS)
        xs = content(rng, cont, n)
        tys = TYS if rng.random() < 0.6 else [rng.choice(TYS)]
        wild = rng.random() < 0.3
        calls, i = [], 0
        for c in split_calls(rng, n):
            ty = rng.choice(tys)
            vals = [to_caller(rng, ty, x, flags, wild) for x in xs[i:i + c]]
            calls.append((ty, rng.choice("if"), c, vals))
            i += c
        F = ((n + SPB - 1) // SPB) * SPB
        j = Job(name, word, bits, sr, flags, kind, cont, calls, read_plans(rng, F, TYS), n)
        jobs.append(j)
        spent += 2 * n
        if n > 0 and (prop == "C07" or rng.random() < 0.3):
            merged = []
            for (ty, unit, cnt, vals) in calls:
                if merged and merged[-1][0] == ty:
                    merged[-1] = (ty, "i", merged[-1][2] + cnt, merged[-1][3] + vals)
                else:
                    merged.append((ty, "i", cnt, list(vals)))
            t = Job(name + "-twin", word, bits, sr, flags, "twin", cont, merged, [[("r", "s16", F + 1, "i")]], n)
            j.twin = t.name
            jobs.append(t)
            spent += n
    return jobs


# ---------------------------------------------------------------------------------------------------
# running the model
# ---------------------------------------------------------------------------------------------------

def run_model(ctx, scripts, workers=3):
    chunks = [scripts[i::workers] for i in range(workers)]
    chunks = [c for c in chunks if c]

    def one(chunk):
        inp = "".join("== %s\n%s" % (n, t) for (n, t) in chunk)
        out = ctx.run_model(["g72x", "script"], inp, timeout=3600)
        res, cur = {}, None
        for line in out.split("\n"):
            if line.startswith("== "):
                cur = line[3:]
                res[cur] = []
            elif cur is not None and line:
                res[cur].append(line)
        return res

    out = {}
    with concurrent.futures.ThreadPoolExecutor(max_workers=len(chunks) or 1) as ex:
        for r in ex.map(one, chunks):
            out.update(r)
    return out


# ---------------------------------------------------------------------------------------------------
# analysis
# ---------------------------------------------------------------------------------------------------

def kv(line):
    d = {}
    for t in line.split():
        if "=" in t:
            a, b = t.split("=", 1)
            d[a] = b
    return d


def items_of(hexs, ty):
    w = DIG[ty]
    return [hexs[i:i + w] for i in range(0, len(hexs) - w + 1, w)]


def data_region(job, filehex):
    """the library's file from the data offset to the end"""
    if (job.word & 0xFFF0000) == AU:
        return filehex[2 * int(filehex[8:16] or "18", 16):] if len(filehex) >= 48 else ""
    i = filehex.find("64617461")
    while i >= 0 and i % 2:
        i = filehex.find("64617461", i + 1)
    return filehex[i + 16:] if i >= 0 else ""


def dump_hex(lines):
    l = next((l for l in lines if l.startswith("len=") and "hex=" in l), None)
    return l.split("hex=")[1].strip() if l is not None else ""


class Problem:
    def __init__(self, job, kind, cat, text, line=None, impl=None, model=None, expect=None, observed=None):
        self.job, self.kind, self.cat, self.text, self.line, self.impl, self.model, self.expect = job, kind, cat, text, line, impl, model, expect
        self.observed = observed          # the violating transcript line: the replay fails while the library still answers it
        self.twin_script = None


def to_short(ty, item, flags):
    """the decoded short behind a delivered item (exact for every type: the conversions of g72x_read_* are injective)"""
    v = int(item, 16)
    if ty == "s16":
        return sx16(v)
    if ty == "s32":
        return sx16(v >> 16) if v & 0xFFFF == 0 else None
    x = K.bits_f32(v) if ty == "f32" else K.bits_f64(v)
    x = x * 32768.0 if flags.get("normF" if ty == "f32" else "normD", 1) else x
    return int(x) if x == int(x) and -32768 <= x <= 32767 else None


def analyse(job, impl, model):
    probs = []
    sl, mk = job.lines, job.mk
    info = {"datahex": None, "filehex": None, "items": 0, "bytes": 0, "reads": 0, "seeks": 0, "blocks": 0}
    died = next((l for l in impl if l.startswith(("CRASH", "ABORT", "TIMEOUT"))), None)
    if died is not None:
        return [Problem(job, "pred", "crash", "implementation died: " + died, max(0, min(len(impl), len(sl)) - 1))], info
    if len(impl) < len(sl):
        return [Problem(job, "pred", "crash", "transcript ends early (%d of %d lines)" % (len(impl), len(sl)), len(impl))], info
    mi = 0
    F, pos, ref, broken, seekable = 0, 0, None, False, None
    for k, (op, out) in enumerate(zip(sl, impl)):
        t = op.split()
        m = None
        if mk[k] is not None:
            m = model[mi] if mi < len(model) else "<missing>"
            mi += 1
        if t[0] == "open":
            ok = "open=ok" in out
            if job.kind.startswith("nomono"):
                if ok or "open=fail" not in m:
                    probs.append(Problem(job, "corr", "open", "%d channels: the open must be refused (SFE_G72X_NOT_MONO)" % job.ch, k, out, m))
                return probs, info
            if not ok:
                probs.append(Problem(job, "pred", "open", "open failed: %s" % out[:200], k))
                return probs, info
            if t[3] == "r":
                F = int(kv(out).get("frames", -1))
                seekable = kv(out).get("seekable")
                pos, broken = 0, False
                info["blocks"] += F // SPB
                if m.strip() != "frames=%d" % F:
                    probs.append(Problem(job, "corr", "frames", "frames after re-open", k, out, m))
                if not job.stored() and not (job.n <= F < job.n + SPB):
                    probs.append(Problem(job, "pred", "frames", "%d frames written, the file re-opens with %d frames (not in [N, N + 120))" % (job.n, F), k,
                                         expect="frames=%d " % (((job.n + SPB - 1) // SPB) * SPB)))
            elif "open=ok" not in m:
                probs.append(Problem(job, "corr", "open", "open for write", k, out, m))
        elif t[0] == "w":
            if S.normalise(out) != S.normalise(m):
                probs.append(Problem(job, "corr", "write", "write return value", k, out, m))
            if kv(out).get("ret") != t[4]:
                probs.append(Problem(job, "pred", "count", "write of %s items returned %s" % (t[4], kv(out).get("ret")), k, expect="ret=%s " % t[4]))
        elif t[0] == "dump":
            fh = out.split("hex=")[1].strip() if "hex=" in out else ""
            data = data_region(job, fh)
            info["datahex"], info["filehex"] = data, fh
            md = m.split("data=")[1].strip() if "data=" in m else "?"
            info["bytes"] = len(data) // 2
            if data != md:
                d = next((i for i in range(0, min(len(data), len(md)), 2) if data[i:i + 2] != md[i:i + 2]), min(len(data), len(md)))
                probs.append(Problem(job, "corr", "bytes", "data region differs from byte %d (lengths %d / %d): implementation …%s model …%s"
                                     % (d // 2, len(data) // 2, len(md) // 2, data[max(0, d - 8):d + 24], md[max(0, d - 8):d + 24]), k,
                                     "len=%d" % (len(data) // 2), "len=%d" % (len(md) // 2)))
        elif t[0] == "r":
            ty, req = t[2], int(t[4])
            a, b = kv(out), kv(m)
            ret = int(a.get("ret", -1))
            da, db = a.get("data", ""), b.get("data", "")
            if a.get("ret") != b.get("ret") or da != db or (a.get("err") == "0") != (b.get("err") == "0"):
                d = next((i for i in range(0, min(len(da), len(db)), DIG[ty]) if da[i:i + DIG[ty]] != db[i:i + DIG[ty]]), -1)
                probs.append(Problem(job, "corr", "read", "read result (first differing cell %d)" % (d // DIG[ty] if d >= 0 else -1), k, out[:300], m[:300]))
            info["reads"] += 1
            info["items"] += req
            cells = items_of(da, ty)
            got = cells[:max(ret, 0)]
            exp = min(req, max(F - pos, 0))
            if ret != exp and not broken:
                probs.append(Problem(job, "pred", "position", "read of %d items at frame %d of %d returned %d" % (req, pos, F, ret), k, expect="ret=%d " % exp))
                broken = True
            if 0 <= ret < req:
                z = next((i for i in range(ret, len(cells)) if int(cells[i], 16) != 0), None)
                if z is not None or a.get("err") != "0":
                    probs.append(Problem(job, "pred", "zerofill", "read of %d items returned %d: cell %s of the requested region is not zero / err=%s" % (req, ret, z, a.get("err")), k, observed=out))
            shorts = [to_short(ty, c, job.flags) for c in got]
            if ref is None:
                ref = shorts
                if None in shorts:
                    probs.append(Problem(job, "pred", "stream", "reference read delivers an item that is no 16-bit sample in caller type %s" % ty, k))
            elif not broken:
                c = min(len(shorts), max(len(ref) - pos, 0))
                d = next((i for i in range(c) if shorts[i] != ref[pos + i]), None)
                if d is not None:
                    probs.append(Problem(job, "pred", "stream", "read of %d %s items at frame %d: item %d stands for sample %s, the sequential read of another handle delivered %s there"
                                         % (req, ty, pos, d, shorts[d], ref[pos + d]), k, observed=out))
                    broken = True
            pos += max(ret, 0)
        elif t[0] == "seek":
            a, b = kv(out), kv(m)
            if a.get("ret") != b.get("ret") or (a.get("err") == "0") != (b.get("err") == "0"):
                probs.append(Problem(job, "corr", "seek", "seek result", k, out, m))
            info["seeks"] += 1
            if seekable == "0" and (a.get("ret") != "-1" or a.get("err") == "0"):
                probs.append(Problem(job, "pred", "seek", "the handle reports seekable=0 but sf_seek (%s, %s) returned %s err=%s" % (t[2], t[3], a.get("ret"), a.get("err")), k, expect="ret=-1 "))
            elif seekable != "0":
                probs.append(Problem(job, "corr", "seek", "the handle reports seekable=%s (the model: 0)" % seekable, k, out, m))
    return probs, info


def campaign(ctx, njobs, prop):
    jobs = make_jobs(ctx, njobs, prop)
    hs = {j.name: j.harness_script() for j in jobs}
    impl = ctx.batch([(j.name, hs[j.name]) for j in jobs], workers=3, clean=True)
    ms = []
    for j in jobs:
        data = getattr(j, "datahex", None) if j.kind == "bytes" else "" if j.kind.startswith("nomono") else data_region(j, dump_hex(impl.get(j.name, [])))
        ms.append((j.name, j.model_script(data)))
    model = run_model(ctx, ms)
    stats = collections.Counter()
    probs, infos = [], {}
    for j in jobs:
        p, info = analyse(j, impl.get(j.name, []), model.get(j.name, []))
        infos[j.name] = info
        probs += p
        stats["jobs"] += 1
        stats["ops"] += len(j.lines)
        stats["frames_written"] += 0 if j.stored() else j.n
        stats["read_cells_compared"] += info["items"]
        stats["reads_compared"] += info["reads"]
        stats["seeks_compared"] += info["seeks"]
        stats["data_region_bytes_compared"] += info["bytes"]
        stats["blocks_decoded"] += info["blocks"]
        stats["fmt:" + j.fmtname] += 1
        stats["kind:" + j.kind] += 1
        stats["content:" + j.cont] += 1
        stats["length:" + ("0" if j.n == 0 else "<120" if j.n < 120 else "block-edge" if j.n % SPB in (0, 1, 119) else "<4096" if j.n < 4096 else ">=4096")] += 1
        for (ty, unit, cnt, _) in j.calls:
            stats["caller:%s/%s" % (ty, unit)] += 1
        if j.kind == "bytes":
            stats["adversarial_bytes_decoded"] += len(j.datahex) // 2
        ctx.distinct.add("g72x:%s:%s:%s" % (j.fmtname, j.kind, j.cont))
    byname = {j.name: j for j in jobs}
    for j in jobs:
        if not j.twin:
            continue
        a, b = infos.get(j.name, {}).get("filehex"), infos.get(j.twin, {}).get("filehex")
        if a is None or b is None:
            continue
        stats["twins_compared"] += 1
        if a != b:
            d = next((i for i in range(0, min(len(a), len(b)), 2) if a[i:i + 2] != b[i:i + 2]), min(len(a), len(b)))
            pr = Problem(j, "pred", "partition", "the same caller values written in %d calls and in %d calls give files that differ from byte %d (lengths %d / %d)"
                         % (len(j.calls), len(byname[j.twin].calls), d // 2, len(a) // 2, len(b) // 2), None)
            pr.twin_script = hs[j.twin]
            probs.append(pr)
    return jobs, hs, probs, stats


CATS = {
    "C05": {"count", "frames", "position", "zerofill", "stream", "crash", "open"},
    "C06": {"stream", "position", "seek", "crash", "open"},
    "C07": {"partition", "crash", "open"},
}


def run(ctx, prop, njobs):
    """called from the property's run(): reports violations; returns True if something was reported"""
    jobs, hs, probs, stats = campaign(ctx, njobs, prop)
    ctx.count(stats["ops"])
    ctx.coverage["traces_validated_against_impl"] += stats["jobs"]
    corr = [p for p in probs if p.kind == "corr"]
    corr_jobs = {p.job.name for p in corr}
    found = False
    reported = set()
    for p in probs:
        if p.kind != "pred" or p.cat not in CATS[prop]:
            continue
        j = p.job
        key = (j.fmtname, p.cat)
        if key in reported or len(reported) >= 3:
            continue
        reported.add(key)
        found = True
        sl = j.lines
        script = "\n".join(sl[:p.line + 1] if p.line is not None else sl) + "\n"
        if p.twin_script:
            script = hs[j.name] + "# --- the same caller values, one call per run of equal type:\n" + p.twin_script
        head = "expect-last %s\n" % p.expect if p.expect and p.line is not None else "observed-last %s\n" % p.observed if p.observed and p.line is not None else ""
        ctx.violation("%s-g72x-%s-%s" % (prop.lower(), j.fmtname, p.cat),
                      "# %s violated on the implementation's own transcript (G.72x campaign, predicate '%s')\n# format %s (%08x), 1 channel, %d frames, job kind %s, content %s\n# %s\n%s--- script\n%s"
                      % (prop, p.cat, j.fmtname, j.word, j.n, j.kind, j.cont, p.text, head, script))
    if corr and not found:
        p = corr[0]
        j = p.job
        ln = p.line or 0
        ctx.violation("%s-g72x-correspondence-%s" % (prop.lower(), j.fmtname),
                      "# correspondence stream 'G.72x model (Sf.G72x) vs implementation' no longer agrees: %d differences in %d of %d jobs\n"
                      "# first: %s (%s), script line %d: %s\n# %s\n# implementation: %s\n# model: %s\n"
                      "# the %s predicates on the implementation's transcripts found no failing input\n--- script\n%s"
                      % (len(corr), len(corr_jobs), stats["jobs"], j.name, p.cat, ln, j.lines[ln][:100], p.text[:400], (p.impl or "")[:300], (p.model or "")[:300], prop,
                         "\n".join(j.lines[:ln + 1]) + "\n"), no_input=True)
        found = True
    cprobs, cstats = core_campaign(ctx, 6 if ctx.tier == "quick" else 60)
    ctx.count(cstats["core_enc_lines"] + cstats["core_dec_lines"])
    stats.update(cstats)
    if cprobs and not found:
        ctx.violation("%s-g72x-core-correspondence" % prop.lower(),
                      "# correspondence stream 'G.72x codec core (src/G72x/*.c linked alone) vs Sf.G72x' no longer agrees: %d differing lines\n# %s\n"
                      "# (the property predicates on the implementation's transcripts found no failing input)\n" % (len(cprobs), cprobs[0]), no_input=True)
        found = True
    note = {k: v for k, v in sorted(stats.items())}
    note["correspondence_differences"] = len(corr)
    note["core_correspondence_differences"] = len(cprobs)
    note["predicate_failures_by_category"] = dict(collections.Counter(p.cat for p in probs if p.kind == "pred"))
    ctx.notes["g72x"] = note
    ctx.sample({"kind": "G.72x job (%s)" % prop, "jobs": stats["jobs"], "example": next((t for t in hs.values() if len(t) < 700), next(iter(hs.values()))[:700])})
    ctx.coverage["rule"] = (ctx.coverage.get("rule", "") + " | g72x: AU x {G721_32, G723_24, G723_40} and WAV x G721_32, 1 channel (2+ channels: the refusal): contents {zero, extremes, alternating, noise, walks, "
                            "resonator, quiet, impulse, steps, mixtures}, lengths {0,1,2,7,119..121,239..241,359,361,1000,4095..4097,4215..4217,4321,8193} and random up to 6000 (quick) / 30000 frames, written in calls of "
                            "{1,7,59..61,119..121,240,1000,4095..4097,whole} items of one or mixed caller types (floats also outside the short range), item and frame variants; adversarial data regions "
                            "(noise, constant codes up to 60 blocks, every code in turn, byte pools, partial last blocks) decoded through all four read types in pieces of {1,2,119..121,240,1000,4095..4097,5000} "
                            "with refused seeks in between; bytes, return values, frame counts and every cell of every read buffer compared with the Lean model (sampled, not exhaustive)")
    return found


# ---------------------------------------------------------------------------------------------------
# tables by execution: the static arrays of src/G72x/*.c, printed by a throw-away program that #includes the sources of
# the tree under test -> lean/SfModel/Generated/G72xTables.lean -> `g72x_tables_extracted` (SfProps/C05G72x.lean) re-checked
# ---------------------------------------------------------------------------------------------------

EXTRACT_C = r"""
#include <stdio.h>
#define qtab_721 T_g721_qtab
#define _dqlntab T_g721_dqlntab
#define _witab T_g721_witab
#define _fitab T_g721_fitab
#include "g721.c"
#undef _dqlntab
#undef _witab
#undef _fitab
#define qtab_723_16 T_g723_16_qtab
#define _dqlntab T_g723_16_dqlntab
#define _witab T_g723_16_witab
#define _fitab T_g723_16_fitab
#include "g723_16.c"
#undef _dqlntab
#undef _witab
#undef _fitab
#define qtab_723_24 T_g723_24_qtab
#define _dqlntab T_g723_24_dqlntab
#define _witab T_g723_24_witab
#define _fitab T_g723_24_fitab
#include "g723_24.c"
#undef _dqlntab
#undef _witab
#undef _fitab
#define qtab_723_40 T_g723_40_qtab
#define _dqlntab T_g723_40_dqlntab
#define _witab T_g723_40_witab
#define _fitab T_g723_40_fitab
#include "g723_40.c"
#undef _dqlntab
#undef _witab
#undef _fitab
#define power2 T_power2
#include "g72x.c"
#define P(name, t) do { unsigned k ; printf ("%s", name) ; for (k = 0 ; k < sizeof (t) / sizeof (t [0]) ; k++) printf (" %d", (int) t [k]) ; printf ("\n") ; } while (0)
int main (void)
{	P ("g721.qtab", T_g721_qtab) ; P ("g721.dqlntab", T_g721_dqlntab) ; P ("g721.witab", T_g721_witab) ; P ("g721.fitab", T_g721_fitab) ;
	P ("g723_16.qtab", T_g723_16_qtab) ; P ("g723_16.dqlntab", T_g723_16_dqlntab) ; P ("g723_16.witab", T_g723_16_witab) ; P ("g723_16.fitab", T_g723_16_fitab) ;
	P ("g723_24.qtab", T_g723_24_qtab) ; P ("g723_24.dqlntab", T_g723_24_dqlntab) ; P ("g723_24.witab", T_g723_24_witab) ; P ("g723_24.fitab", T_g723_24_fitab) ;
	P ("g723_40.qtab", T_g723_40_qtab) ; P ("g723_40.dqlntab", T_g723_40_dqlntab) ; P ("g723_40.witab", T_g723_40_witab) ; P ("g723_40.fitab", T_g723_40_fitab) ;
	P ("power2", T_power2) ;
	printf ("geometry %d %d %d %d %d\n", G72x_BLOCK_SIZE, G723_16_BYTES_PER_BLOCK, G723_24_BYTES_PER_BLOCK, G721_32_BYTES_PER_BLOCK, G723_40_BYTES_PER_BLOCK) ;
	return 0 ;
}
"""


def extract_tables():
    """compile and run the extractor against the tree under test; returns the list of output lines (or raises)"""
    import os, subprocess, tempfile
    from . import build
    src = os.path.join(build.REPO, "src", "G72x")
    with tempfile.TemporaryDirectory(prefix="g72xtab-") as d:
        c = os.path.join(d, "extract.c")
        with open(c, "w") as f:
            f.write(EXTRACT_C)
        exe = os.path.join(d, "extract")
        p = subprocess.run(["gcc", "-O0", "-w", "-I", src, c, "-o", exe], capture_output=True, text=True, timeout=120)
        if p.returncode != 0:
            raise RuntimeError("G72x table extractor does not compile against %s:\n%s" % (src, p.stderr[-2000:]))
        q = subprocess.run([exe], capture_output=True, text=True, timeout=20)
        if q.returncode != 0:
            raise RuntimeError("G72x table extractor failed: rc=%d %s" % (q.returncode, q.stderr[-500:]))
        return [l for l in q.stdout.split("\n") if l.strip()]


def lean_tables(lines):
    out = ["/- GENERATED on every C05 / C06 / C07 check run by vlib/g72x.py `extract_tables`: a throw-away C program #includes",
           "   src/G72x/g721.c, g723_16.c, g723_24.c, g723_40.c, g72x.c of the tree under test and prints their static arrays and the",
           "   block geometry of g72x.h.  Not edited by hand.  `g72x_tables_extracted` (SfProps/C05G72x.lean) proves the model's",
           "   transcribed tables equal to these. -/",
           "namespace Sf.Generated.G72x", ""]
    for l in lines:
        t = l.split()
        name = t[0].replace(".", "_")
        out.append("def %s : List Int := [%s]" % (name, ", ".join(t[1:])))
    out += ["", "end Sf.Generated.G72x", ""]
    return "\n".join(out)


def pregen(ctx):
    """called by the property modules BEFORE the Lean stage"""
    try:
        lines = extract_tables()
    except Exception as e:               # the tree under test no longer has the tables where the model expects them
        ctx.notes["g72x_tables"] = "extraction failed: %s" % str(e)[:300]
        ctx.violation("%s-g72x-table-extraction" % ctx.prop.lower(),
                      "# the G.72x tables could not be extracted by execution from the tree under test, so the model's tables are not tied to it\n# %s\n" % str(e)[:1500], no_input=True)
        return
    changed = ctx.set_generated("G72xTables.lean", lean_tables(lines))
    ctx.notes["g72x_tables"] = {"entries_extracted": sum(len(l.split()) - 1 for l in lines), "arrays": len(lines), "changed_since_commit": changed}


# ---------------------------------------------------------------------------------------------------
# the codec core alone, all FOUR rates (G.723 16 kbit/s is in src/G72x but reachable through no libsndfile format): a throw-away
# program links src/G72x/*.c of the tree under test (ASan) and runs g72x_encode_block / g72x_decode_block on whole blocks;
# the model answers the same lines with `sfmodel g72x enc|dec <bits>`
# ---------------------------------------------------------------------------------------------------

CORE_C = r"""
#include <stdio.h>
#include <stdlib.h>
#include <string.h>
#include "g72x.h"
static int hv (int c) { return c <= '9' ? c - '0' : (c | 32) - 'a' + 10 ; }
int main (int argc, char **argv)
{	int bits = atoi (argv [2]), enc = argv [1][0] == 'e', bs, spb ;
	static char line [1 << 20] ;
	while (fgets (line, sizeof (line), stdin))
	{	size_t n = strcspn (line, "\r\n"), k, i ;
		struct g72x_state *st = enc ? g72x_writer_init (bits, &bs, &spb) : g72x_reader_init (bits, &bs, &spb) ;
		if (st == NULL) { printf ("init-failed\n") ; continue ; }
		if (enc)
		{	size_t ns = n / 4 ;
			for (k = 0 ; k < ns ; k += G72x_BLOCK_SIZE)
			{	short samples [G72x_BLOCK_SIZE] ; unsigned char block [G72x_BLOCK_SIZE] ;
				memset (samples, 0, sizeof (samples)) ;
				for (i = 0 ; i < G72x_BLOCK_SIZE && k + i < ns ; i++)
				{	const char *p = line + 4 * (k + i) ;
					samples [i] = (short) ((hv (p [0]) << 12) | (hv (p [1]) << 8) | (hv (p [2]) << 4) | hv (p [3])) ;
					}
				g72x_encode_block (st, samples, block) ;
				for (i = 0 ; i < (size_t) bs ; i++) printf ("%02x", block [i]) ;
				}
			}
		else
		{	size_t nb = n / 2 ;
			for (k = 0 ; k + bs <= nb ; k += bs)
			{	short samples [G72x_BLOCK_SIZE] ; unsigned char block [G72x_BLOCK_SIZE] ;
				memset (block, 0, sizeof (block)) ;
				for (i = 0 ; i < (size_t) bs ; i++) block [i] = (unsigned char) ((hv (line [2 * (k + i)]) << 4) | hv (line [2 * (k + i) + 1])) ;
				g72x_decode_block (st, block, samples) ;
				for (i = 0 ; i < G72x_BLOCK_SIZE ; i++) printf ("%04x", samples [i] & 0xFFFF) ;
				}
			}
		printf ("\n") ;
		free (st) ;
		}
	return 0 ;
}
"""


def core_campaign(ctx, nlines):
    """returns (problems as text lines, stats)"""
    import os, subprocess, tempfile
    from . import build
    rng = ctx.rng
    src = os.path.join(build.REPO, "src", "G72x")
    stats = collections.Counter()
    probs = []
    with tempfile.TemporaryDirectory(prefix="g72xcore-") as d:
        c = os.path.join(d, "core.c")
        with open(c, "w") as f:
            f.write(CORE_C)
        exe = os.path.join(d, "core")
        files = [os.path.join(src, x) for x in ("g72x.c", "g721.c", "g723_16.c", "g723_24.c", "g723_40.c")]
        p = subprocess.run(["gcc", "-O1", "-g", "-w", "-fsanitize=address", "-I", src, c] + files + ["-o", exe], capture_output=True, text=True, timeout=300)
        if p.returncode != 0:
            return ["the codec-core runner does not compile against %s: %s" % (src, p.stderr[-800:])], stats
        for bits in (2, 3, 4, 5):
            B = bpb(bits)
            enc_lines, dec_lines = [], []
            for k in range(nlines):
                n = rng.choice([1, 119, 120, 121, 240, 600, 1200, 3000])
                enc_lines.append(K.hex_items(content(rng, rng.choice(CONTENTS), n), 4))
                nb = rng.choice([1, 2, 5, 12, 30, 45]) * B
                dec_lines.append("".join("%02x" % b for b in adversarial(rng, bits, rng.choice(["noise", "const", "cycle", "bytepool", "runs"]), nb)))
            for what, lines in (("enc", enc_lines), ("dec", dec_lines)):
                inp = "\n".join(lines) + "\n"
                q = subprocess.run([exe, what, str(bits)], input=inp, capture_output=True, text=True, timeout=300, env=dict(os.environ, ASAN_OPTIONS="detect_leaks=0"))
                if q.returncode != 0:
                    probs.append("codec-core runner %s %d died (rc=%d): %s\ninput line 0: %s" % (what, bits, q.returncode, q.stderr[-600:], lines[0][:400]))
                    continue
                impl = q.stdout.split("\n")
                model = ctx.run_model(["g72x", what, str(bits)], inp, timeout=600).split("\n")
                for i, l in enumerate(lines):
                    a, b = (impl[i] if i < len(impl) else "<missing>").strip(), (model[i] if i < len(model) else "<missing>").strip()
                    stats["core_%s_lines" % what] += 1
                    stats["core_%s_%s" % (what, "bytes" if what == "enc" else "samples")] += len(a) // (2 if what == "enc" else 4)
                    stats["core_rate_%d" % bits] += 1
                    if a != b:
                        w = 2 if what == "enc" else 4
                        dd = next((j for j in range(0, min(len(a), len(b)), w) if a[j:j + w] != b[j:j + w]), min(len(a), len(b)))
                        probs.append("g72x_%s_block, %d bits per sample: %s %d differs (lengths %d / %d): implementation …%s model …%s\ninput: %s"
                                     % ("encode" if what == "enc" else "decode", bits, "byte" if what == "enc" else "sample", dd // w, len(a) // w, len(b) // w,
                                        a[max(0, dd - 8):dd + 16], b[max(0, dd - 8):dd + 16], l[:2000]))
    return probs, stats
