"""The (major, subtype, endian) combinations the running library accepts, obtained from the library itself."""
import re

LE, BE, CPU = 0x10000000, 0x20000000, 0x30000000
SAMPLE_GRANULAR = {0x01, 0x05, 0x02, 0x03, 0x04, 0x06, 0x07, 0x10, 0x11, 0x50, 0x51}
CODEC_NAME = {0x01: "pcm_s8", 0x05: "pcm_u8", 0x02: "pcm_16", 0x03: "pcm_24", 0x04: "pcm_32", 0x06: "float", 0x07: "double",
              0x10: "ulaw", 0x11: "alaw", 0x12: "ima_adpcm", 0x13: "ms_adpcm", 0x20: "gsm610", 0x21: "vox_adpcm",
              0x22: "nms_16", 0x23: "nms_24", 0x24: "nms_32", 0x30: "g721_32", 0x31: "g723_24", 0x32: "g723_40",
              0x40: "dwvw_12", 0x41: "dwvw_16", 0x42: "dwvw_24", 0x43: "dwvw_n", 0x50: "dpcm_8", 0x51: "dpcm_16",
              0x70: "alac_16", 0x71: "alac_20", 0x72: "alac_24", 0x73: "alac_32"}
MAJOR_NAME = {0x01: "wav", 0x02: "aiff", 0x03: "au", 0x04: "raw", 0x05: "paf", 0x06: "svx", 0x07: "nist", 0x08: "voc", 0x0A: "ircam",
              0x0B: "w64", 0x0C: "mat4", 0x0D: "mat5", 0x0E: "pvf", 0x0F: "xi", 0x10: "htk", 0x11: "sds", 0x12: "avr", 0x13: "wavex",
              0x16: "sd2", 0x17: "flac", 0x18: "caf", 0x19: "wve", 0x20: "ogg", 0x21: "mpc2k", 0x22: "rf64", 0x23: "mpeg"}
# width of the stored integer for lossless integer round trips (bits), per codec
INT_WIDTH = {0x01: 8, 0x05: 8, 0x02: 16, 0x03: 24, 0x04: 32, 0x50: 8, 0x51: 16, 0x40: 12, 0x41: 16, 0x42: 24,
             0x70: 16, 0x71: 20, 0x72: 24, 0x73: 32}


class Fmt:
    def __init__(self, word, maxch):
        self.word = word
        self.major = (word >> 16) & 0xFFF
        self.codec = word & 0xFFFF
        self.endian = word & 0x30000000
        self.maxch = maxch

    @property
    def name(self):
        e = {0: "", LE: "-le", BE: "-be", CPU: "-cpu"}[self.endian]
        return "%s-%s%s" % (MAJOR_NAME.get(self.major, "%02x" % self.major), CODEC_NAME.get(self.codec, "%04x" % self.codec), e)

    @property
    def granular(self):
        return self.codec in SAMPLE_GRANULAR

    def __repr__(self):
        return "Fmt(%08x %s maxch=%d)" % (self.word, self.name, self.maxch)


_cache = {}


def writable_formats(ctx):
    """every (major, subtype, endian) with sf_format_check TRUE for 1 channel (or 2), with the largest accepted channel count
    among {1,2,3,6,8,9,16,256,1024}."""
    key = ctx.sfh()
    if key in _cache:
        return _cache[key]
    p = ctx.run_sfh(["table", "formats"], "")
    majors, subs = [], []
    for line in p.stdout.split("\n"):
        m = re.match(r"(major|subtype) (\d+) ret=0 fmt=([0-9a-f]+)", line)
        if m:
            (majors if m.group(1) == "major" else subs).append(int(m.group(3), 16))
    probes = [1, 2, 3, 6, 8, 9, 16, 256, 1024]
    lines = []
    for mj in majors:
        for sb in subs:
            for e in (0, LE, BE, CPU):
                for ch in probes:
                    lines.append("fcheck %08x %d 44100" % (mj | sb | e, ch))
    out, rc, err = ctx.script("\n".join(lines) + "\n")
    res = []
    k = 0
    for mj in majors:
        for sb in subs:
            for e in (0, LE, BE, CPU):
                ok = [probes[j] for j in range(len(probes)) if out[k + j].strip() == "ret=1"]
                k += len(probes)
                if ok:
                    res.append(Fmt(mj | sb | e, max(ok)))
    _cache[key] = res
    return res
