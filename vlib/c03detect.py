"""C03: the parse code NO campaign entered (design-notes/coverage.md, round 9 covgap).

1. THE BROKEN-'fmt ' DETECTOR  (src/wavlike.c:160-170 `fmt_is_broken`, wavlike_analyze, src/audio_detect.c)
   A WAV / RF64 'fmt ' chunk with format PCM, bit width 24 and block align 4 x channels makes the reader GUESS float vs PCM_32 from
   the bytes at ABSOLUTE file offset 600 on, in 4096-byte pieces.  Deterministic family (`detect_family`), 1-8 channels, WAV and RF64:
     first piece votes float (first four bytes decide, as the code is written; exponent byte at both edges 0x43/0x44/0x4A/0x4B, data [0] = 0),
     votes PCM_32 through the constant test (data [2] != 0, data [3] == 0) and through the moving test at 768 groups (exactly three
     quarters: NOT enough) / 769 groups, votes nothing, float AND int (float wins), the vote only in the second / third piece, a second
     piece one byte short, files of 599, 600, 600 + 4095, 600 + 4096, 600 + 4096 + 4095 bytes, a header-only file, a PAD chunk that
     pushes the data chunk behind offset 600 (the detector then votes on HEADER bytes), data lengths that are no multiple of the block,
   each through virtual I/O, a descriptor and a pipe (the pipe is refused before anything is read).
   CORRESPONDENCE with the Lean model `Sf.AudioDetect.analyze` (`sfmodel audiodetect`): the votes of every piece the library examined
   (from its log), the outcome line ("found format" / "detection failed" / pipe refusal), SF_INFO.format and frames, and that a raw read
   of two blocks of the INSTALLED block width delivers the bytes at the data offset (seek-back + blockwidth).  Monitored as the rest of
   C03 (ASan, CPU-time limit, sane SF_INFO).
2. LIST 'exif'  (exif_subchunk_parse, exif_fill_and_sink): well-formed and damaged sub-chunks (`exif_family`; the same chunks are in
   c03fuzz.foreign_chunks and its interaction round) — monitored.
"""
import struct
from . import c03fuzz

START, PIECE = 600, 4096


def _chunk(tag, payload):
    return tag + struct.pack("<I", len(payload)) + payload + (b"\0" if len(payload) & 1 else b"")


def wav(ch, body, pre=b"", rf64=False, bits=24, ba=None, total=None):
    """a RIFF/WAVE (or RF64) file whose 'fmt ' chunk is PCM / `bits` / block align `ba` (default 4 x channels: the broken class)"""
    ba = 4 * ch if ba is None else ba
    fmt = _chunk(b"fmt ", struct.pack("<HHIIHH", 1, ch, 8000, (8000 * ba) & 0xFFFFFFFF, ba & 0xFFFF, bits))
    if rf64:
        chunks = fmt + pre + b"data" + struct.pack("<I", 0xFFFFFFFF) + body
        ds64 = b"ds64" + struct.pack("<I", 28) + struct.pack("<QQQI", 36 + 4 + len(chunks) - 8 + 0, len(body), len(body) // max(ba, 1), 0)
        out = b"RF64" + struct.pack("<I", 0xFFFFFFFF) + b"WAVE" + ds64 + chunks
    else:
        chunks = fmt + pre + b"data" + struct.pack("<I", len(body)) + body
        out = b"RIFF" + struct.pack("<I", 4 + len(chunks)) + b"WAVE" + chunks
    if total is not None:
        out = out[:total] if len(out) >= total else out + bytes(total - len(out))
    return out


def _at600(hdr_len, tail, total=None):
    """a data-chunk body such that the file holds `tail` from absolute offset 600 on"""
    return bytes((7 * i + 1) & 0xFF for i in range(START - hdr_len)) + tail      # a recognisable run in front: a read that starts elsewhere shows


FLOATG = bytes([1, 0, 0, 0x44])
INTG = bytes([0, 9, 0, 1])        # data [k] == 0 && data [k + 1] != 0; as a FIRST group it does not fire the constant tests


def pieces():
    """(label, bytes the file holds from offset 600 on)"""
    z = bytes(PIECE)
    P = []
    P.append(("float", FLOATG + bytes(PIECE - 4) + bytes(40)))
    for e in (0x43, 0x44, 0x4A, 0x4B):
        P.append(("float-exp-%02x" % e, bytes([7, 0, 0, e]) + bytes(PIECE - 4)))
    P.append(("float-data0-zero", bytes([0, 0, 0, 0x44]) * 1024))
    P.append(("float-all-groups-but-first", bytes(4) + FLOATG * 1023))
    P.append(("int-constant-test", bytes([0, 0, 5, 0]) + bytes(PIECE - 4)))
    P.append(("int-constant-test-d3", bytes([0, 0, 5, 1]) + bytes(PIECE - 4)))
    for n in (767, 768, 769, 1024):
        P.append(("int-moving-%d" % n, INTG * n + bytes(PIECE - 4 * n) + bytes(24)))
    P.append(("float-and-int", FLOATG + INTG * 800 + bytes(PIECE - 4 - 3200)))
    P.append(("zeros", z + bytes(100)))
    P.append(("ff", b"\xff" * PIECE))
    P.append(("second-piece-float", z + FLOATG + bytes(PIECE - 4)))
    P.append(("third-piece-int", z + z + INTG * 769 + bytes(PIECE - 4 * 769) + bytes(7)))
    P.append(("second-piece-one-short", z + FLOATG + bytes(PIECE - 5)))
    P.append(("len-600+4095", FLOATG + bytes(PIECE - 5)))
    P.append(("len-600+4096", FLOATG + bytes(PIECE - 4)))
    P.append(("len-600+4096+4095", z + FLOATG + bytes(PIECE - 5)))
    P.append(("len-600", b""))
    P.append(("len-601", b"\x01"))
    return P


def detect_family():
    """-> list of (label, ch, major, file bytes, data offset, data length)"""
    out = []
    hdr = 44

    def add(label, ch, data, rf64=False):
        off = data.find(b"data", 12) + 8
        dlen = struct.unpack("<I", data[off - 4:off])[0]
        if rf64 or dlen > len(data) - off:
            dlen = len(data) - off
        out.append((label, ch, 0x220000 if rf64 else 0x10000, data, off, dlen))

    P = pieces()
    for ch in range(1, 9):
        sel = P if ch <= 2 else [P[i] for i in range(len(P)) if (i + ch) % 4 == 0 or P[i][0] in ("float", "int-moving-769", "int-moving-768", "zeros")]
        for (label, tail) in sel:
            add("%s-ch%d" % (label, ch), ch, wav(ch, _at600(hdr, tail)))
    for ch in (1, 2, 5, 8):
        for (label, tail) in [P[0], P[7], P[11], P[14], P[16], P[19]]:
            add("rf64-%s-ch%d" % (label, ch), ch, wav(ch, _at600(80, tail), rf64=True), rf64=True)
    # short files: nothing at 600
    for ch in (1, 3):
        add("len-599-ch%d" % ch, ch, wav(ch, bytes(599 - hdr)))
        add("header-only-ch%d" % ch, ch, wav(ch, b""))
        add("one-frame-ch%d" % ch, ch, wav(ch, bytes(range(1, 4 * ch + 1))))
        add("truncated-data-ch%d" % ch, ch, wav(ch, bytes(5000))[:700])
    # the data chunk behind offset 600: the detector judges header / PAD bytes
    for ch in (1, 2, 4):
        pad = _chunk(b"PAD ", bytes(START - 36 - 8) + FLOATG + bytes(PIECE - 4))
        add("pad-float-then-int-data-ch%d" % ch, ch, wav(ch, INTG * 1100, pre=pad))
        pad = _chunk(b"PAD ", bytes(START - 36 - 8) + INTG * 900 + bytes(PIECE - 3600))
        add("pad-int-then-float-data-ch%d" % ch, ch, wav(ch, FLOATG * 1100 + b"\x01\x02\x03", pre=pad))
    # the neighbours of the class: NOT broken (bit width / block align / format off by one) — the detector must not run
    for (label, kw) in [("ok-24-3", dict(bits=24, ba=3)), ("bits-23", dict(bits=23)), ("bits-32", dict(bits=32)), ("ba-5", dict(ba=5))]:
        add("notbroken-" + label, 1, wav(1, _at600(hdr, P[0][1]), **kw))
    return out


def exif_chunks():
    """LIST 'exif' chunks: the library parses exif as a LIST type with sub-chunks (ever, emnt, emdl, ecor, etim, erel, eucm, olym)"""
    def sub(tag, payload, size=None):
        return tag + struct.pack("<I", len(payload) if size is None else size) + payload
    L = lambda body, size=None: b"LIST" + struct.pack("<I", (4 + len(body)) if size is None else size) + b"exif" + body + (b"\0" if len(body) & 1 else b"")
    out = []
    out.append(("exif-well-formed", L(sub(b"ever", b"0230") + sub(b"emnt", b"maker\0") + sub(b"emdl", b"EX-Z1050") + b"\0\0" + sub(b"ecor", b"corp\0\0")
                                      + sub(b"etim", b"12:00:00.00\0") + sub(b"erel", b"a.jpg\0") + sub(b"eucm", b"ASCII\0\0\0hi"))))
    out.append(("exif-size-0", L(sub(b"emnt", b"") + sub(b"emdl", b"") + sub(b"ever", b"0230"))))
    out.append(("exif-size-odd", L(sub(b"emnt", b"abc") + sub(b"ecor", b"x"))))
    out.append(("exif-size-larger-than-list", L(sub(b"emnt", b"abcd", size=3000))))
    out.append(("exif-size-4094", L(sub(b"emnt", b"a" * 4094))))
    out.append(("exif-size-4095", L(sub(b"emnt", b"b" * 4095) + b"\0")))
    out.append(("exif-size-4096", L(sub(b"emnt", b"c" * 4096))))
    out.append(("exif-size-larger-than-buffer", L(sub(b"ecor", b"d" * 5000))))
    out.append(("exif-size-ffffffff", L(sub(b"etim", b"zz", size=0xFFFFFFFF))))
    out.append(("exif-size-7fffffff", L(sub(b"eucm", b"zz", size=0x7FFFFFFF))))
    out.append(("exif-emdl-unterminated", L(sub(b"emdl", b"EX-Z1050"))))
    out.append(("exif-olym", L(sub(b"olym", bytes(10)) + sub(b"olym", b"", size=0x10000))))
    out.append(("exif-unknown-and-zero-markers", L(bytes(8) + b"zzzz" + sub(b"ever", b"9999"))))
    out.append(("exif-list-size-short", L(sub(b"emnt", b"maker\0"), size=9)))
    out.append(("exif-list-size-huge", L(sub(b"emnt", b"maker\0"), size=0x7FFFFFF0)))
    out.append(("exif-truncated-in-sub-header", L(b"emn")))
    out.append(("exif-data-inside", L(sub(b"data", b"\0\0"))))
    return out


def exif_family():
    body = bytes(range(64))
    fmt = _chunk(b"fmt ", struct.pack("<HHIIHH", 1, 1, 8000, 16000, 2, 16))
    out = []
    for (label, c) in exif_chunks():
        for (pos, chunks) in (("before", fmt + c + _chunk(b"data", body)), ("after", fmt + _chunk(b"data", body) + c)):
            out.append(("%s-%s" % (label, pos), b"RIFF" + struct.pack("<I", 4 + len(chunks)) + b"WAVE" + chunks))
    return out


def _log_of(line):
    if not line.startswith("ret=") or "data=" not in line:
        return None
    try:
        return bytes.fromhex(line.split("data=")[1]).split(b"\0")[0].decode("latin1")
    except ValueError:
        return None


def parse_log(log):
    """-> (outcome, [votes]) as the library's log states them"""
    votes, cur = [], []
    for l in log.split("\n"):
        t = l.strip()
        for key in ("le_float", "be_float", "le_int_24_32", "be_int_24_32"):
            if t.startswith(key) and ":" in t:
                cur.append(int(t.split(":")[1]))
                if len(cur) == 4:
                    votes.append(tuple(cur))
                    cur = []
    if "Reading from a pipe. Can't analyze" in log:
        o = "pipe"
    elif "wavlike_analyze : detection failed" in log:
        o = "failed"
    elif "wavlike_analyze : found format : 0x" in log:
        o = "found:" + log.split("wavlike_analyze : found format : 0x")[1].split()[0].lower()
    elif "wavlike_analyze : unhandled format : 0x" in log:
        o = "unhandled:" + log.split("wavlike_analyze : unhandled format : 0x")[1].split()[0].lower()
    elif "Format is known to be broken" in log:
        o = "started"
    else:
        o = "not-run"
    return o, votes


ROUTES = ["vio", "fd", "pipe"]


def run(ctx, known):
    """-> list of (name, replay text, has_input)"""
    problems = []
    fam = detect_family()
    jobs, reqs = [], []
    for i, (label, ch, major, data, off, dlen) in enumerate(fam):
        for route in ROUTES:
            if label.startswith("notbroken") and route != "vio":
                continue
            reqs.append("analyze pipe=%d ch=%d major=%x dlen=%d file=%s" % (1 if route == "pipe" else 0, ch, major, dlen, data.hex()))
            jobs.append((label, route, ch, data, off, dlen))
    model = [c03fuzz.kvs(l) for l in ctx.run_model(["audiodetect"], "\n".join(reqs) + "\n").split("\n") if l.strip()]
    if len(model) != len(jobs):
        return [("c03detect-model", "sfmodel audiodetect answered %d of %d requests" % (len(model), len(jobs)), False)]
    scripts = []
    for k, ((label, route, ch, data, off, dlen), m) in enumerate(zip(jobs, model)):
        bw = int(m["blockw"])
        ops = ["store s0 " + data.hex(), "open h0 s0 r" + ("" if route == "vio" else " route=" + route), "cmd h0 1001 16384 zero",
               "rraw h0 %d" % (2 * bw), "rraw h0 %d" % (bw + 1), "r h0 f32 f 3 q", "seek h0 0 0", "r h0 s32 i %d q" % (5 * ch), "info h0", "close h0"]
        scripts.append(("det-%d" % k, ops))
    out = ctx.batch([(n, "\n".join(ops) + "\n") for (n, ops) in scripts], op_timeout=10, workers=8, retry_timeouts=False)
    outcomes = {}
    checked_votes = 0
    for (name, ops), (label, route, ch, data, off, dlen), m in zip(scripts, jobs, model):
        tr = out.get(name)
        ctx.count(1, tag="detect-%s-%s" % (m["outcome"], route))
        head = "C03 broken-'fmt ' detector: file %s (%d bytes, %d channels, data at %d, %d data bytes) through %s\n" % (label, len(data), ch, off, dlen, route)
        if tr is None:
            problems.append(("c03detect-" + label, head + "harness died\n--- script\n" + "\n".join(ops) + "\n", True))
            continue
        verdict, _info = c03fuzz.judge(ops, tr, known)
        if verdict is not None:
            problems.append(("c03detect-mon-%s-%s" % (label, route), head + "monitor: %s at operation %d\n--- script\n%s\n" % (verdict[1], verdict[0], "\n".join(ops[:verdict[0] + 1])), True))
            continue
        lines, _st, _stray = c03fuzz.split_transcript(tr)
        if len(lines) < 4 or not lines[1].startswith("open=ok"):
            # a broken-class file the model says is readable must open (every member of the family has a whole header)
            problems.append(("c03detect-open-%s-%s" % (label, route), head + "the open failed: %s\nexpect-last open=ok\n--- script\n%s\n" % (lines[1:2], "\n".join(ops[:2])), True))
            continue
        d = c03fuzz.kvs(lines[1])
        notbroken = label.startswith("notbroken")
        log = _log_of(lines[2]) or ""
        o, votes = parse_log(log)
        outcomes[o] = outcomes.get(o, 0) + 1
        if notbroken:
            if o != "not-run":
                problems.append(("c03detect-" + label, head + "the detector ran on a 'fmt ' chunk outside the broken class (log: %s)\n--- script\n%s\n" % (o, "\n".join(ops[:3])), True))
            continue
        want_fmt = m["fmt"].lower()
        want_frames = int(m["frames"])
        if route == "pipe":
            want_frames = None         # a pipe's frame count comes from the header's data length where there is one; not the detector's business
        exp_votes = [tuple(int(x) for x in v.split(",")) for v in m.get("votes", "").split(";") if v]
        checked_votes += len(exp_votes)
        what = None
        upto = 3
        expect = None
        if d.get("fmt", "").lower() != want_fmt:
            what, upto, expect = "SF_INFO.format %s, the model installs %s" % (d.get("fmt"), want_fmt), 2, "fmt=" + want_fmt
        elif want_frames is not None and int(d.get("frames", "-1")) != want_frames:
            what, upto, expect = "SF_INFO.frames %s, the model's blockwidth %s gives %d" % (d.get("frames"), m["blockw"], want_frames), 2, "frames=%d " % want_frames
        elif o != m["outcome"]:
            what = "the log says %r, the model %r" % (o, m["outcome"])
            expect = {"failed": b"wavlike_analyze : detection failed", "pipe": b"Reading from a pipe. Can't analyze"}.get(m["outcome"], b"wavlike_analyze : found format : 0x" + m["outcome"].split(":")[-1].upper().encode()).hex()
        elif votes != exp_votes:
            what = "votes per examined piece (le_float, be_float, le_int_24_32, be_int_24_32): library %s, model %s" % (votes, exp_votes)
            if exp_votes:
                v = exp_votes[-1]
                expect = (b"    le_float     : %d\n    be_float     : %d\n    le_int_24_32 : %d\n" % (v[0], v[1], v[2])).hex()
        else:
            bw = int(m["blockw"])
            r = c03fuzz.kvs(lines[3])
            if dlen >= 2 * bw and route != "pipe":
                want = data[off:off + 2 * bw].hex()
                if r.get("ret") != str(2 * bw) or r.get("data") != want:
                    what, upto, expect = "a raw read of two blocks (%d bytes) after the open returned ret=%s / other bytes than the file holds at the data offset" % (2 * bw, r.get("ret")), 4, "data=" + want
            r2 = c03fuzz.kvs(lines[4]) if len(lines) > 4 else {}
            if what is None and r2.get("ret") not in ("0", None) and bw > 1:
                what, upto, expect = "a raw read of blockwidth + 1 bytes was accepted (ret=%s): the installed block width is not %d" % (r2.get("ret"), bw), 5, "ret=0 "
        if what is not None:
            problems.append(("c03detect-%s-%s" % (label, route), head + "model/implementation disagree: " + what + "\nmodel: " + " ".join("%s=%s" % kv for kv in m.items())
                             + ("\nexpect-last " + expect if expect else "") + "\n--- script\n" + "\n".join(ops[:upto]) + "\n", True))
    ctx.notes["detect_files"] = len(fam)
    ctx.notes["detect_scripts"] = len(jobs)
    ctx.notes["detect_outcomes_in_library_log"] = outcomes
    ctx.notes["detect_pieces_votes_compared"] = checked_votes
    ctx.coverage["traces_validated_against_impl"] += len(jobs)

    # ---- LIST/exif: monitored, every route, plus the log must show the parser was entered ----
    ex = exif_family()
    scripts = []
    for k, (label, data) in enumerate(ex):
        for route in ROUTES:
            ops = ["store s0 " + data.hex(), "open h0 s0 r" + ("" if route == "vio" else " route=" + route), "cmd h0 1001 16384 zero", "r h0 s16 i 70 q",
                   "getstr h0 1", "chunkiter h0 4c495354", "chunkget h0", "seek h0 0 0", "r h0 s32 f 3 q", "close h0"]
            scripts.append(("exif-%d-%s" % (k, route), label, route, data, ops))
    out = ctx.batch([(s[0], "\n".join(s[4]) + "\n") for s in scripts], op_timeout=10, workers=8, retry_timeouts=False)
    entered = 0
    for (name, label, route, data, ops) in scripts:
        tr = out.get(name)
        ctx.count(1, tag="exif-" + route)
        if tr is None:
            problems.append(("c03exif-" + label, "harness died\n--- script\n" + "\n".join(ops) + "\n", True))
            continue
        verdict, _ = c03fuzz.judge(ops, tr, known)
        if verdict is not None:
            problems.append(("c03exif-%s-%s" % (label, route), "C03 LIST/exif file %s through %s: %s at operation %d\n--- script\n%s\n" % (label, route, verdict[1], verdict[0], "\n".join(ops[:verdict[0] + 1])), True))
            continue
        lines, _st, _stray = c03fuzz.split_transcript(tr)
        log = _log_of(lines[2]) if len(lines) > 2 else None
        if log and "  exif\n" in log:
            entered += 1
    ctx.notes["exif_scripts"] = len(scripts)
    ctx.notes["exif_parser_entered"] = entered
    ctx.coverage["traces_validated_against_impl"] += len(scripts)
    if ex and entered == 0:
        problems.append(("c03exif-not-entered", "no LIST/exif file of the family reached exif_subchunk_parse (log never shows the 'exif' LIST type): the family or the reader changed", False))
    return problems
