"""C09 stage F: THE FAILURE-VALUE TABLE of sf_command on handles that cannot serve the command.

Why this exists (round 8, seed C09-calc-all-returns-false): the twin campaign (vlib/c09twin.py) inserts invalid calls into WRITE
histories and decides "was it refused?" for a command by `sf_error != 0` alone; no stage issues a command on a READ handle of a codec
that cannot seek.  A command that reports the documented SUCCESS value while the error is recorded and nothing is filled in passes
both.  The failure convention differs per command (docs/command.md "Return value"), so it is a table:

    convention `code`   zero on success, non-zero otherwise; the non-zero value is the error number sf_error reports afterwards
                        SFC_CALC_SIGNAL_MAX / NORM_SIGNAL_MAX / MAX_ALL_CHANNELS / NORM_MAX_ALL_CHANNELS, SFC_SET_RAW_START_OFFSET
    convention `false`  SF_TRUE / SF_FALSE: SF_FALSE (0) with a recorded error
                        SFC_GET_SIGNAL_MAX / MAX_ALL_CHANNELS with a wrong size
(lean/SfModel/CmdFail.lean `Sf.CmdFail.convOf` / `refusedBy`; `refused` below mirrors it; theorems lean/SfProps/C09CmdFail.lean tie
the table to the command model Sf.Command.run.)

What is enumerated: every writable (container, codec) — quick tier: every pair whose read handle is NOT seekable plus a seeded half
of the others —, one history each:
    open w | write A | T(w) | write B | T(w) | close | dump | open r | info | T(r or nsr) | read k | T(..) | read rest | close
T(kind) = every row of the table that is invalid on that kind of handle (w = write-only: no read functions; nsr = read handle whose
codec cannot seek; every kind: wrong datasize / NULL), each followed by sf_strerror.  On a seekable read handle the four CALC
commands are VALID: they must return 0, leave sf_error at 0 and fill the result in ("every call that succeeds leaves sf_error at 0").
The twin is the history without the inserted calls; the verdict (refused with the documented failure value, error code, message;
every other line — later writes, the closed file's bytes, info, the audio read after the calls — equal) is `Sf.AbsTwin.judge`
through `sfmodel abs-twin`.
"""
import re, struct
from . import scripts as S, formats, abscheck, c09twin

CODE, FALSE = "code", "false"
ALL = ("w", "r", "nsr")


def table(h, ch, major):
    """(script line, convention, handle kinds on which the call is INVALID, description)"""
    c = lambda i, size, data: "cmd %s %x %d %s" % (h, i, size, data)
    T = []
    for i, nm in ((0x1040, "SFC_CALC_SIGNAL_MAX"), (0x1041, "SFC_CALC_NORM_SIGNAL_MAX")):
        T.append((c(i, 8, "zero"), CODE, ("w", "nsr"), nm + " on a handle that cannot scan"))
        T.append((c(i, 4, "zero"), CODE, ALL, nm + " with datasize != sizeof (double)"))
        T.append((c(i, 8, "null"), CODE, ALL, nm + " with NULL"))
    for i, nm in ((0x1042, "SFC_CALC_MAX_ALL_CHANNELS"), (0x1043, "SFC_CALC_NORM_MAX_ALL_CHANNELS")):
        T.append((c(i, 8 * ch, "zero"), CODE, ("w", "nsr"), nm + " on a handle that cannot scan"))
        T.append((c(i, 8 * ch + 8, "zero"), CODE, ALL, nm + " with datasize != channels * sizeof (double)"))
        T.append((c(i, 8 * ch, "null"), CODE, ALL, nm + " with NULL"))
    T.append((c(0x1044, 4, "zero"), FALSE, ALL, "SFC_GET_SIGNAL_MAX with datasize != sizeof (double)"))
    T.append((c(0x1045, 8 * ch + 1, "zero"), FALSE, ALL, "SFC_GET_MAX_ALL_CHANNELS with a wrong datasize"))
    # (SFC_GET_CURRENT_SF_INFO with a wrong size records its error in the PROCESS-WIDE error number, not in the handle: that quirk is
    #  modelled by Sf.World / C19 and is left out of this table)
    if major != 0x04:
        T.append((c(0x1090, 8, struct.pack("<q", 4).hex()), CODE, ALL, "SFC_SET_RAW_START_OFFSET on a non-RAW file"))
    return T


def refused(conv, line):
    """mirror of Sf.CmdFail.refusedBy: did the call answer with the failure value of its convention?"""
    kv = abscheck.parse_kv(line)
    ret, err = kv.get("ret"), kv.get("err")
    if conv == CODE:
        return ret not in ("0", None) and ret == err
    return ret == "0" and err not in ("0", None)


VALID_ON_R = ("cmd %s 1040 8 zero", "cmd %s 1041 8 zero", "cmd %s 1042 %d zero", "cmd %s 1043 %d zero")


def history(rng, f, ch, kind_r):
    """-> (lines, marks {index: (conv, desc)}, valid {index: desc}); kind_r = 'r' | 'nsr' | None (not known yet: no read part)"""
    ty = "s16" if f.codec not in (0x06, 0x07) else "f32"
    A, B = rng.choice([3, 8, 33]), rng.choice([5, 40, 170])
    L, marks, valid = ["open h0 s0 w fmt=%08x ch=%d sr=8000" % (f.word, ch)], {}, {}

    def ins(h, kind, rot):
        T = [t for t in table(h, ch, f.major) if kind in t[2]]
        T = T[rot % 2::2] if len(T) > 8 and kind == "r" else T
        for (line, conv, _, desc) in T:
            marks[len(L)] = (conv, desc)
            L.append(line)
            L.append("strerror %s" % h)

    L.append(S.w_line("h0", ty, "f", A, S.rand_values(rng, ty, A * ch, "unit")))
    ins("h0", "w", 0)
    L.append(S.w_line("h0", ty, "f", B, S.rand_values(rng, ty, B * ch, "unit")))
    ins("h0", "w", 1)
    L += ["close h0", "dump s0"]
    if kind_r:
        raw = f.major == 0x04
        L += [("open h1 s0 r fmt=%08x ch=%d sr=8000" % (f.word, ch)) if raw else "open h1 s0 r", "info h1"]
        ins("h1", kind_r, 0)
        L.append("r h1 %s f %d" % (ty, rng.choice([1, 2, 7])))
        ins("h1", kind_r, 1)
        # (DWVW can only rewind: SFC_CALC_* cannot return to the position it started from; C18 owns that case, as in vlib/querycamp.py)
        if kind_r == "r" and f.codec not in (0x40, 0x41, 0x42):
            for v in VALID_ON_R:
                valid[len(L)] = v.split()[2]
                L.append(v % (("h1", 8 * ch) if "%d" in v else ("h1",)))
                L.append("strerror h1")
        L.append("r h1 %s f %d" % (ty, A + B + 700))
        L.append("close h1")
    return L, marks, valid


def regressions(ctx):
    """second witness of the repaired KF-C09-CALC-SIGNAL-MAX-RET0 (the non-seekable read handle; the first, a write-only handle, is the
    entry's own witness and runs in ctx.run_regressions): the refused call returns the error number it records"""
    import os
    from .core import VERIF
    path = os.path.join(VERIF, "findings", "kf_c09_calc_signal_max_ret0_nsr.txt")
    if not os.path.exists(path):
        return False
    text = open(path).read()
    head, script = text.split("--- script", 1)
    lines, rc, err = ctx.script(script.lstrip("\n"))
    ctx.count(1, "regression:KF-C09-CALC-SIGNAL-MAX-RET0-nsr")
    exp = [l[len("expect-last "):].strip() for l in head.split("\n") if l.startswith("expect-last ")]
    if rc == 0 and lines and all(e in lines[-1] for e in exp):
        return False
    ctx.violation("regression-KF-C09-CALC-SIGNAL-MAX-RET0-nsr", "# the defect repaired by `fix: SFC_CALC_SIGNAL_MAX / SFC_CALC_NORM_SIGNAL_MAX returned 0 "
                  "(success) when the scan was refused` is back\n# last transcript line now: %s\n%s" % (lines[-1] if lines else "(none, rc=%d)" % rc, text))
    return True


def run(ctx, quick=True):
    rng = ctx.rng
    back = regressions(ctx)
    fs = [f for f in formats.writable_formats(ctx) if f.major != 0x16]
    # pass 0: which read handles are not seekable (one tiny file per format)
    probe = []
    for i, f in enumerate(fs):
        ty = "s16" if f.codec not in (0x06, 0x07) else "f32"
        raw = f.major == 0x04
        probe.append(("cf-probe-%d" % i, "open h0 s0 w fmt=%08x ch=1 sr=8000\n%s\nclose h0\n%s\nclose h1\n"
                      % (f.word, S.w_line("h0", ty, "f", 4, S.rand_values(rng, ty, 4, "unit")),
                         ("open h1 s0 r fmt=%08x ch=1 sr=8000" % f.word) if raw else "open h1 s0 r")))
    po = ctx.batch(probe, clean=True)
    kinds = {}
    for i, f in enumerate(fs):
        o = [l for l in po.get("cf-probe-%d" % i, []) if l.startswith("open=")]
        kinds[f.name] = None if len(o) < 2 or not o[1].startswith("open=ok") else ("nsr" if "seekable=0" in o[1] else "r")
    jobs = []
    half = rng.randrange(2)
    for i, f in enumerate(fs):
        if quick and kinds[f.name] != "nsr" and i % 2 != half:
            continue
        ch = min(1 + (i + half) % 2, f.maxch)
        L, marks, valid = history(rng, f, ch, kinds[f.name])
        jobs.append(("cf-%s-%d" % (f.name, i), f, ch, L, marks, valid))
    tw = ctx.batch([(n + "-twin", "\n".join(L) + "\n") for (n, f, ch, L, marks, valid) in jobs], workers=6)
    base = []
    for (n, f, ch, L, marks, valid) in jobs:
        drop = set()
        for k in list(marks) + list(valid):
            drop |= {k, k + 1}
        base.append((n, [k for k in range(len(L)) if k not in drop]))
    bs = ctx.batch([(n + "-base", "\n".join(L[k] for k in kept) + "\n") for (n, kept), (_, f, ch, L, marks, valid) in zip(base, jobs)], workers=6)
    st = ctx.notes.setdefault("command_failure_table", {"histories": 0, "inserted_calls": 0, "refused": 0, "valid_calc_calls": 0, "rows": 0,
                                                       "non_seekable_read_handles": 0, "write_only_handles": 0})
    recs, who = [], {}
    found, reported = False, set()

    def report(name, f, ch, kind, text, L, marks, upto, must=None):
        nonlocal found
        key = (f.name.split("-")[0], kind[:30])
        if key in reported or len(reported) >= 6:
            return
        reported.add(key)
        found = True
        ctx.violation("c09cmdfail-%s-%s" % (name, re.sub(r"\W+", "_", kind)[:40]),
                      "# C09 (failure-value table of sf_command): %s\n# format %s, %d channel(s)\n# %s\n"
                      "# re-run: bin/check C09 --replay <this file> (runs the script, then the same script without the calls it saw refused, and compares)\n"
                      "c09-twin ch=%d\ntwin-inserted %s\ntwin-must %s\n--- script\n%s\n"
                      % (kind, f.name, ch, text, ch, ",".join(str(k) for k in sorted(marks) if k < upto), ",".join(str(k) for k in (must or [])),
                         "\n".join(L[:upto])))

    for (name, kept), (_, f, ch, L, marks, valid) in zip(base, jobs):
        out = c09twin._filter(tw.get(name + "-twin", []))
        bout = c09twin._filter(bs.get(name + "-base", []))
        st["histories"] += 1
        st["write_only_handles"] += 1
        st["non_seekable_read_handles"] += 1 if kinds[f.name] == "nsr" else 0
        ctx.count(len(L), tag="cmdfail:" + f.name)
        if out and out[0].startswith("open=NULL"):
            continue
        if len(out) < len(L) or len(bout) < len(kept) or any(l.startswith(("CRASH", "ABORT", "TIMEOUT")) for l in out + bout):
            k = min(len(out), len(L))
            report(name, f, ch, "crash", "script died: %s" % ([l for l in out + bout if l.startswith(("CRASH", "ABORT", "TIMEOUT"))][:1] or "transcript short"), L, marks, k + 1)
            continue
        st["rows"] = max(st["rows"], len(table("h0", ch, f.major)))
        ls = ["== " + name]
        for k in sorted(marks):
            conv, desc = marks[k]
            st["inserted_calls"] += 1
            r = refused(conv, out[k])
            st["refused"] += 1 if r else 0
            kv, kv2 = abscheck.parse_kv(out[k]), abscheck.parse_kv(out[k + 1])
            # (KF-C09-CALC-SIGNAL-MAX-RET0 -- SFC_CALC_[NORM_]SIGNAL_MAX answered 0 with the error recorded -- is repaired: no class is
            #  waived in this table any more; its two witnesses are regressions, see `regressions` below)
            ls.append("ins k=%d must=1 refused=%d err=%s msglen=%s" % (k, 1 if r else 0, kv.get("err", "0") or "0", kv2.get("msglen", "-1") or "-1"))
            # a refused command leaves the caller's block alone
            d = kv.get("data", "")
            if r and d not in ("", "null") and set(d) != {"0"} and L[k].split()[4] == "zero":
                report(name, f, ch, desc + " (output written)", "the refused call `%s` wrote into the caller's block: %s" % (L[k], out[k][:120]), L, marks, k + 2)
        for k in sorted(valid):
            st["valid_calc_calls"] += 1
            kv = abscheck.parse_kv(out[k])
            if kv.get("ret") != "0" or kv.get("err") != "0" or set(kv.get("data", "0")) == {"0"}:
                report(name, f, ch, "valid SFC_CALC_* call on a seekable read handle",
                       "`%s` answered `%s`: a call that succeeds returns 0, leaves sf_error at 0 and fills the result in (the file holds non-zero samples)" % (L[k], out[k][:120]), L, marks, k + 2)
        d = next((i for i, o in enumerate(L) if o.startswith("dump ")), len(L))
        for bi, k in enumerate(kept):
            ls.append("pair k=%d phase=%s" % (k, "state" if k < d else "file" if k == d else "reopen"))
            ls.append(c09twin._ess(L[k], bout[bi], ch))
            ls.append(c09twin._ess(L[k], out[k], ch))
        recs.append("\n".join(ls) + "\n")
        who[name] = (f, ch, L, marks, out, kept, bout)
    verdicts, rc, err = c09twin.run_driver(ctx, "".join(recs))
    if rc != 0 or len(verdicts) != len(who):
        ctx.violation("c09cmdfail-driver", "sfmodel abs-twin failed: rc=%d, %d verdicts for %d records; %s" % (rc, len(verdicts), len(who), err), no_input=True)
        return True
    for name, (status, detail) in verdicts.items():
        if status == "ok":
            continue
        f, ch, L, marks, out, kept, bout = who[name]
        kv = abscheck.parse_kv(detail)
        clause, k = kv.get("clause", "?"), int(kv.get("k", "0"))
        if clause in ("fail-value", "error-code"):
            conv, desc = marks[k]
            want = ("a non-zero value equal to the error number sf_error reports (docs/command.md: zero on success, non-zero otherwise)" if conv == CODE
                    else "SF_FALSE with a recorded error")
            text = ("invalid call `%s` (%s) answered `%s`, then sf_strerror `%s`: %s" % (L[k], desc, out[k][:100], out[k + 1],
                    "documented failure value: " + want if clause == "fail-value" else "a refused call records a non-zero error with a non-empty message"))
            report(name, f, ch, desc + " (" + clause + ")", text, L, marks, k + 2, must=[k])
        else:
            bi = kept.index(k)
            report(name, f, ch, "a refused command changed the %s" % {"state": "handle state", "file": "closed file", "reopen": "re-opened file"}.get(clause, clause),
                   "line `%s` answers `%s` with the refused commands, `%s` without them" % (L[k][:60], out[k][:200], bout[bi][:200]), L, marks, k + 1)
    return found or back
